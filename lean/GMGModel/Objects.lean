import GMGModel.Scalar
import GMGModel.Tridiag
/-!
# The hand-written special members of the linear-algebra classes
mirrors `vector.h:56-120`, `coo_matrix.h:120-208`, `csr_matrix.h:88-170`, `diagonalSolver.h`,
`symmetricTridiagonalSolver.h:150-240`, `sparseLUSolver.h:52-128` — field by field.

Heap buffers carry an identity (`id`) so that sharing between two objects is observable; an
operation that would read or write outside a buffer (or through `nullptr`) yields `none`.
`h : Nat` is the allocator state (next fresh id).
-/
namespace Objects

structure Buf (β : Type) where
  id : Nat
  data : List β
  deriving Repr, DecidableEq

/-- `std::make_unique<T[]>(n)` (value-initialised) -/
def alloc {β : Type} (h : Nat) (n : Nat) (zero : β) : Nat × Option (Buf β) :=
  (h + 1, some ⟨h, List.replicate n zero⟩)

/-- `std::copy(src, src + n, dst)` -/
def copyN {β : Type} (dst src : Option (Buf β)) (n : Nat) : Option (Option (Buf β)) :=
  if n = 0 then some dst else
  match dst, src with
  | some d, some s =>
      if n ≤ d.data.length ∧ n ≤ s.data.length then some (some { d with data := s.data.take n ++ d.data.drop n })
      else none
  | _, _ => none

def bufData {β : Type} (b : Option (Buf β)) : List β := match b with | some x => x.data | none => []
def bufId {β : Type} (b : Option (Buf β)) : Option Nat := b.map (·.id)

variable {α : Type} [Scalar α]

/-! ## Vector -/
structure Vec (α : Type) where
  size : Nat
  values : Option (Buf α)
  deriving Repr

namespace Vec
def default : Vec α := ⟨0, none⟩
def ofSize (h : Nat) (n : Nat) : Nat × Vec α := let (h', b) := alloc h n (Scalar.n 0 : α); (h', ⟨n, b⟩)
def copyCtor (h : Nat) (o : Vec α) : Option (Nat × Vec α) :=
  let (h', b) := alloc h o.size (Scalar.n 0 : α)
  (copyN b o.values o.size).map fun b' => (h', ⟨o.size, b'⟩)
/-- `this != &other` case -/
def copyAssign (h : Nat) (t o : Vec α) : Option (Nat × Vec α) :=
  let (h', sz, b) := if t.size ≠ o.size then (let (h', b) := alloc h o.size (Scalar.n 0 : α); (h', o.size, b)) else (h, t.size, t.values)
  (copyN b o.values sz).map fun b' => (h', ⟨sz, b'⟩)
/-- returns (new object, moved-from object) -/
def moveCtor (o : Vec α) : Vec α × Vec α := (⟨o.size, o.values⟩, ⟨0, none⟩)
def moveAssign (_t o : Vec α) : Vec α × Vec α := (⟨o.size, o.values⟩, ⟨0, none⟩)
/-- what a caller can observe -/
def obs (v : Vec α) : Nat × List α := (v.size, (bufData v.values).take v.size)
end Vec

/-! ## SparseMatrixCOO -/
structure COO (α : Type) where
  rows : Nat
  cols : Nat
  nnz : Nat
  rowIdx : Option (Buf Int)
  colIdx : Option (Buf Int)
  values : Option (Buf α)
  symmetric : Bool
  deriving Repr

namespace COO
def default : COO α := ⟨0, 0, 0, none, none, none, false⟩
def ofSize (h : Nat) (rows cols nnz : Nat) : Nat × COO α :=
  let (h1, r) := alloc h nnz (0 : Int); let (h2, c) := alloc h1 nnz (0 : Int); let (h3, v) := alloc h2 nnz (Scalar.n 0 : α)
  (h3, ⟨rows, cols, nnz, r, c, v, false⟩)
def copyCtor (h : Nat) (o : COO α) : Option (Nat × COO α) := do
  let (h1, r) := alloc h o.nnz (0 : Int); let (h2, c) := alloc h1 o.nnz (0 : Int); let (h3, v) := alloc h2 o.nnz (Scalar.n 0 : α)
  let r' ← copyN r o.rowIdx o.nnz; let c' ← copyN c o.colIdx o.nnz; let v' ← copyN v o.values o.nnz
  pure (h3, ⟨o.rows, o.cols, o.nnz, r', c', v', o.symmetric⟩)
def copyAssign (h : Nat) (t o : COO α) : Option (Nat × COO α) := do
  let (h3, r, c, v) := if t.nnz ≠ o.nnz then
      (let (h1, r) := alloc h o.nnz (0 : Int); let (h2, c) := alloc h1 o.nnz (0 : Int); let (h3, v) := alloc h2 o.nnz (Scalar.n 0 : α); (h3, r, c, v))
    else (h, t.rowIdx, t.colIdx, t.values)
  let r' ← copyN r o.rowIdx o.nnz; let c' ← copyN c o.colIdx o.nnz; let v' ← copyN v o.values o.nnz
  pure (h3, ⟨o.rows, o.cols, o.nnz, r', c', v', o.symmetric⟩)
def moved : COO α → COO α := fun _ => ⟨0, 0, 0, none, none, none, false⟩
def moveCtor (o : COO α) : COO α × COO α := (o, moved o)
def moveAssign (_t o : COO α) : COO α × COO α := (o, moved o)
def obs (m : COO α) : Nat × Nat × Nat × List Int × List Int × List α × Bool :=
  (m.rows, m.cols, m.nnz, (bufData m.rowIdx).take m.nnz, (bufData m.colIdx).take m.nnz, (bufData m.values).take m.nnz, m.symmetric)
end COO

/-! ## SparseMatrixCSR -/
structure CSRo (α : Type) where
  rows : Nat
  cols : Nat
  nnz : Nat
  values : Option (Buf α)
  colIdx : Option (Buf Int)
  rowStart : Option (Buf Int)
  deriving Repr

namespace CSRo
def default : CSRo α := ⟨0, 0, 0, none, none, none⟩
/-- `row_start_indices_` is allocated and copied only when the source has one
    (a default-constructed or moved-from matrix has `nullptr`) -/
def copyCtor (h : Nat) (o : CSRo α) : Option (Nat × CSRo α) := do
  let (h1, v) := alloc h o.nnz (Scalar.n 0 : α); let (h2, c) := alloc h1 o.nnz (0 : Int)
  let (h3, r) := if o.rowStart.isSome then alloc h2 (o.rows + 1) (0 : Int) else (h2, none)
  let v' ← copyN v o.values o.nnz; let c' ← copyN c o.colIdx o.nnz
  let r' ← if o.rowStart.isSome then copyN r o.rowStart (o.rows + 1) else pure r
  pure (h3, ⟨o.rows, o.cols, o.nnz, v', c', r'⟩)
def copyAssign (h : Nat) (t o : CSRo α) : Option (Nat × CSRo α) := do
  let (h3, v, c, r) := if t.nnz ≠ o.nnz ∨ t.rows ≠ o.rows ∨ t.rowStart.isSome ≠ o.rowStart.isSome then
      (let (h1, v) := alloc h o.nnz (Scalar.n 0 : α); let (h2, c) := alloc h1 o.nnz (0 : Int)
       let (h3, r) := if o.rowStart.isSome then alloc h2 (o.rows + 1) (0 : Int) else (h2, none)
       (h3, v, c, r))
    else (h, t.values, t.colIdx, t.rowStart)
  let v' ← copyN v o.values o.nnz; let c' ← copyN c o.colIdx o.nnz
  let r' ← if o.rowStart.isSome then copyN r o.rowStart (o.rows + 1) else pure r
  pure (h3, ⟨o.rows, o.cols, o.nnz, v', c', r'⟩)
def moved : CSRo α → CSRo α := fun _ => ⟨0, 0, 0, none, none, none⟩
def moveCtor (o : CSRo α) : CSRo α × CSRo α := (o, moved o)
def moveAssign (_t o : CSRo α) : CSRo α × CSRo α := (o, moved o)
def obs (m : CSRo α) : Nat × Nat × Nat × List α × List Int × List Int :=
  (m.rows, m.cols, m.nnz, (bufData m.values).take m.nnz, (bufData m.colIdx).take m.nnz,
   if m.rowStart.isSome then (bufData m.rowStart).take (m.rows + 1) else [])
end CSRo

/-! ## DiagonalSolver -/
structure Diag (α : Type) where
  n : Nat
  diag : Option (Buf α)
  deriving Repr

namespace Diag
def default : Diag α := ⟨0, none⟩
def ofSize (h : Nat) (n : Nat) : Nat × Diag α := let (h', b) := alloc h n (Scalar.n 0 : α); (h', ⟨n, b⟩)
def copyCtor (h : Nat) (o : Diag α) : Option (Nat × Diag α) :=
  let (h', b) := alloc h o.n (Scalar.n 0 : α)
  (copyN b o.diag o.n).map fun b' => (h', ⟨o.n, b'⟩)
def copyAssign (h : Nat) (t o : Diag α) : Option (Nat × Diag α) :=
  let (h', n, b) := if t.n ≠ o.n then (let (h', b) := alloc h o.n (Scalar.n 0 : α); (h', o.n, b)) else (h, t.n, t.diag)
  (copyN b o.diag n).map fun b' => (h', ⟨n, b'⟩)
def moveCtor (o : Diag α) : Diag α × Diag α := (o, ⟨0, none⟩)
def moveAssign (_t o : Diag α) : Diag α × Diag α := (o, ⟨0, none⟩)
def obs (d : Diag α) : Nat × List α := (d.n, (bufData d.diag).take d.n)
end Diag

/-! ## SymmetricTridiagonalSolver -/
structure Tri (α : Type) where
  n : Nat
  main : Option (Buf α)
  sub : Option (Buf α)
  corner : α
  cyclic : Bool
  factorized : Bool
  gamma : α
  deriving Repr

namespace Tri
def default : Tri α := ⟨0, none, none, Scalar.n 0, true, false, Scalar.n 0⟩
def ofSize (h : Nat) (n : Nat) : Nat × Tri α :=
  let (h1, m) := alloc h n (Scalar.n 0 : α); let (h2, s) := alloc h1 (n - 1) (Scalar.n 0 : α)
  (h2, ⟨n, m, s, Scalar.n 0, true, false, Scalar.n 0⟩)
def copyCtor (h : Nat) (o : Tri α) : Option (Nat × Tri α) := do
  let (h1, m) := alloc h o.n (Scalar.n 0 : α); let (h2, s) := alloc h1 (o.n - 1) (Scalar.n 0 : α)
  let m' ← copyN m o.main o.n; let s' ← copyN s o.sub (o.n - 1)
  pure (h2, ⟨o.n, m', s', o.corner, o.cyclic, o.factorized, o.gamma⟩)
def copyAssign (h : Nat) (t o : Tri α) : Option (Nat × Tri α) := do
  let (h2, m, s) := if t.n ≠ o.n then
      (let (h1, m) := alloc h o.n (Scalar.n 0 : α); let (h2, s) := alloc h1 (o.n - 1) (Scalar.n 0 : α); (h2, m, s))
    else (h, t.main, t.sub)
  let m' ← copyN m o.main o.n; let s' ← copyN s o.sub (o.n - 1)
  pure (h2, ⟨o.n, m', s', o.corner, o.cyclic, o.factorized, o.gamma⟩)
def moved (o : Tri α) : Tri α := ⟨0, none, none, Scalar.n 0, true, false, Scalar.n 0⟩
def moveCtor (o : Tri α) : Tri α × Tri α := (o, moved o)
def moveAssign (_t o : Tri α) : Tri α × Tri α := (o, moved o)
/-- the solver state the arithmetic model works on -/
def toState (t : Tri α) : Tridiag.State α :=
  ⟨(bufData t.main).take t.n, (bufData t.sub).take (t.n - 1), t.corner, t.cyclic, t.factorized, t.gamma⟩
def solve (t : Tri α) (rhs : List α) : Tri α × List α :=
  let r := Tridiag.solve t.toState rhs
  ({ t with main := t.main.map (fun b => { b with data := r.1.main }), sub := t.sub.map (fun b => { b with data := r.1.sub }),
            factorized := r.1.factorized, gamma := r.1.gamma }, r.2)
def obs (t : Tri α) : Nat × List α × List α × α × Bool × Bool × α :=
  (t.n, (bufData t.main).take t.n, (bufData t.sub).take (t.n - 1), t.corner, t.cyclic, t.factorized, t.gamma)
end Tri

end Objects
