import GMGModel.Scalar
/-!
# Symmetric (cyclic) tridiagonal line solver
mirrors `include/LinearAlgebra/symmetricTridiagonalSolver.h:332-367, 415-465`

The C++ loops run over indices; here they are structural recursions over the arrays in the same
direction with the *same arithmetic operations in the same order*, so every intermediate value
coincides with the C++ value for any scalar type.
-/
namespace Tridiag
variable {α : Type} [Scalar α]

/-- the Cholesky loop `for i = 1 … n-1: sub(i-1) /= main(i-1); main(i) -= sub(i-1)² · main(i-1)`
    continued from the already final pivot `d = main(i-1)`; returns (new main(i…), new sub(i-1…)) -/
def factorFrom (d : α) : List α → List α → List α × List α
  | a :: as, b :: bs =>
      let l := b / d
      let d' := a - l * l * d
      let r := factorFrom d' as bs
      (d' :: r.1, l :: r.2)
  | _, _ => ([], [])

/-- in-place LDLᵀ of (main, sub): main becomes D, sub becomes the sub-diagonal of L -/
def factor : List α → List α → List α × List α
  | a :: as, bs => let r := factorFrom a as bs; (a :: r.1, r.2)
  | [], _ => ([], [])

/-- forward substitution `x[i] -= sub(i-1) · x[i-1]`, continued from the already final `z = x[i-1]` -/
def fwdFrom (z : α) : List α → List α → List α
  | l :: ls, y :: ys => let z' := y - l * z; z' :: fwdFrom z' ls ys
  | _, _ => []

def fwd : List α → List α → List α
  | ls, y :: ys => y :: fwdFrom y ls ys
  | _, [] => []

/-- diagonal scaling `x[i] /= main(i)` -/
def scale : List α → List α → List α
  | x :: xs, d :: ds => (x / d) :: scale xs ds
  | _, _ => []

/-- backward substitution `for i = n-2 … 0: x[i] -= sub(i) · x[i+1]` -/
def bwd : List α → List α → List α
  | [w], _ => [w]
  | w :: w' :: ws, l :: ls =>
      match bwd (w' :: ws) ls with
      | x' :: xs => (w - l * x') :: x' :: xs
      | [] => []
  | _, _ => []

/-- the three passes on a stored factorisation (D, L) -/
def subst (D L : List α) (rhs : List α) : List α := bwd (scale (fwd L rhs) D) L

/-- solver object state (`matrix_dimension_` is the length of `main`) -/
structure State (α : Type) where
  main : List α
  sub : List α
  corner : α
  cyclic : Bool
  factorized : Bool
  gamma : α

def setLast (xs : List α) (f : α → α) : List α :=
  match xs with
  | [] => []
  | [x] => [f x]
  | x :: y :: ys => x :: setLast (y :: ys) f

def setHead (xs : List α) (f : α → α) : List α :=
  match xs with
  | [] => []
  | x :: ys => f x :: ys

/-- the right-hand side `u = (γ, 0, …, 0, c)` the second substitution runs on (`u[0] = gamma_`,
    `u[i] = 0 - …` for inner rows, `u[n-1] = corner - …`) -/
def uRhs (n : Nat) (gamma corner : α) : List α :=
  match n with
  | 0 => []
  | 1 => [gamma]
  | n + 2 => gamma :: (List.replicate n (Scalar.n 0) ++ [corner])

/-- `solveSymmetricTridiagonal`, first call factorises in place -/
def solvePlain (s : State α) (rhs : List α) : State α × List α :=
  let s' := if s.factorized then s else
    let r := factor s.main s.sub
    { s with main := r.1, sub := r.2, factorized := true }
  (s', subst s'.main s'.sub rhs)

/-- `solveSymmetricCyclicTridiagonal` (Sherman–Morrison with `γ = -main(0)`) -/
def solveCyclic (s : State α) (rhs : List α) : State α × List α :=
  let s' := if s.factorized then s else
    let gamma := - (s.main.headD (Scalar.n 0))
    let m1 := setHead s.main (fun a => a - gamma)
    let m2 := setLast m1 (fun a => a - s.corner * s.corner / gamma)
    let r := factor m2 s.sub
    { s with main := r.1, sub := r.2, factorized := true, gamma := gamma }
  let n := s'.main.length
  let x := subst s'.main s'.sub rhs
  let u := subst s'.main s'.sub (uRhs n s'.gamma s'.corner)
  let dotXV := x.headD (Scalar.n 0) + s'.corner / s'.gamma * x.getLastD (Scalar.n 0)
  let dotUV := u.headD (Scalar.n 0) + s'.corner / s'.gamma * u.getLastD (Scalar.n 0)
  let factor := dotXV / (Scalar.n 1 + dotUV)
  (s', List.zipWith (fun xi ui => xi - factor * ui) x u)

/-- `solveInPlace` -/
def solve (s : State α) (rhs : List α) : State α × List α :=
  if s.cyclic then solveCyclic s rhs else solvePlain s rhs

/-- fresh solver of dimension `n` with the given entries (`is_cyclic_` defaults to true in the code) -/
def mk (main sub : List α) (corner : α) (cyclic : Bool) : State α :=
  { main := main, sub := sub, corner := corner, cyclic := cyclic, factorized := false, gamma := Scalar.n 0 }

/-! ### the matrix a state represents (before factorisation), applied to a vector -/

/-- tridiagonal product, list form; `p` is the contribution `b_{i-1} x_{i-1}` carried into the row -/
def mulT : List α → List α → List α → α → List α
  | [a], [], [x], p => [p + a * x]
  | a :: as, b :: bs, x :: x' :: xs, p => (p + a * x + b * x') :: mulT as bs (x' :: xs) (b * x)
  | _, _, _, _ => []

/-- cyclic product: tridiagonal part plus the corner entry at (0, n-1) and (n-1, 0) -/
def mulC (a b : List α) (c : α) (x : List α) : List α :=
  let t := mulT a b x (Scalar.n 0)
  let x0 := x.headD (Scalar.n 0)
  let xl := x.getLastD (Scalar.n 0)
  setLast (setHead t (fun v => v + c * xl)) (fun v => v + c * x0)

end Tridiag
