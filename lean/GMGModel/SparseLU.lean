import GMGModel.Scalar
/-!
# CSR container and sparse LU without pivoting
mirrors `include/LinearAlgebra/csr_matrix.h` (constructors) and `sparseLUSolver.h:145-245`

`std::unordered_map<int,T>` is modelled as an association list without duplicate keys (`Row`);
`operator[]` default-constructs `0`, `find` may miss.  Iteration order over a map is the list order;
the theorems show the result does not depend on it.
-/
namespace SparseLU
variable {α : Type} [Scalar α]

abbrev Row (α : Type) := List (Nat × α)

/-- `map.find(k)` -/
def get (r : Row α) (k : Nat) : Option α := (r.find? (fun e => e.1 == k)).map (·.2)
/-- value read through `operator[]` (missing keys read as `T()` = 0) -/
def den (r : Row α) (k : Nat) : α := (get r k).getD (Scalar.n 0)
/-- `map[k] = v` -/
def set (r : Row α) (k : Nat) (v : α) : Row α :=
  if r.any (fun e => e.1 == k) then r.map (fun e => if e.1 == k then (k, v) else e) else r ++ [(k, v)]

structure CSR (α : Type) where
  rows : Nat
  cols : Nat
  values : List α
  colIdx : List Nat
  rowPtr : List Nat

/-- `while (count < nnz && get<0>(entries[count]) == r) count++` -/
def skipRow (ents : List (Nat × Nat × α)) (r : Nat) : Nat → Nat → Nat
  | count, 0 => count
  | count, fuel + 1 =>
      match ents[count]? with
      | some e => if e.1 == r then skipRow ents r (count + 1) fuel else count
      | none => count

/-- `row_start_indices_` as the triplet constructor fills it (entries must come row by row) -/
def rowStarts (rows : Nat) (ents : List (Nat × Nat × α)) : List Nat :=
  ((List.range rows).foldl (fun (acc : List Nat × Nat) r =>
      let c := skipRow ents r acc.2 ents.length
      (acc.1 ++ [c], c)) ([0], 0)).1

/-- constructor from triplets -/
def CSR.ofTriplets (rows cols : Nat) (ents : List (Nat × Nat × α)) : CSR α :=
  ⟨rows, cols, ents.map (·.2.2), ents.map (·.2.1), rowStarts rows ents⟩

/-- `row_values[j] = A.row_nz_entry(i, idx)` for the stored entries of row `i`, in storage order
    (a repeated column index overwrites) -/
def loadRow (A : CSR α) (i : Nat) : Row α :=
  let lo := A.rowPtr.getD i 0
  let hi := A.rowPtr.getD (i + 1) 0
  (List.range (hi - lo)).foldl
    (fun r idx => set r (A.colIdx.getD (lo + idx) 0) (A.values.getD (lo + idx) (Scalar.n 0))) []

/-- dense meaning of a CSR matrix -/
def toDense (A : CSR α) (i j : Nat) : α := den (loadRow A i) j

/-- one step `j` of the elimination of the working row against the finished row `Uj` of U
    (`sparseLUSolver.h:171-186`) -/
def elimStep (Uj : Row α) (j : Nat) (row : Row α) : Row α :=
  match get row j with
  | none => row
  | some v =>
      let l := v / den Uj j
      let row1 := set row j l
      Uj.foldl (fun r e => if e.1 > j then set r e.1 (den r e.1 - l * e.2) else r) row1

/-- eliminate columns `0 … i-1` -/
def elimRow (U : List (Row α)) (i : Nat) (row : Row α) : Row α :=
  (List.range i).foldl (fun r j => elimStep (U.getD j []) j r) row

/-- row-by-row factorisation: returns (L rows, U rows) as maps -/
def factorRows (A : CSR α) : List (Row α) × List (Row α) :=
  (List.range A.rows).foldl (fun (LU : List (Row α) × List (Row α)) i =>
      let r := elimRow LU.2 i (loadRow A i)
      (LU.1 ++ [r.filter (fun e => e.1 < i)], LU.2 ++ [r.filter (fun e => e.1 ≥ i)])) ([], [])

def vget (b : List α) (i : Nat) : α := b.getD i (Scalar.n 0)

/-- `L y = b` in place: `b[i] -= L(i,c) * b[c]` over the stored entries of row `i`, rows ascending -/
def fwdSolve (L : List (Row α)) (b : List α) : List α :=
  (List.range L.length).foldl (fun b i =>
      (L.getD i []).foldl (fun b e => b.set i (vget b i - e.2 * vget b e.1)) b) b

/-- one row of the backward substitution: returns the diagonal found (0 if absent) and the updated `b[i]` -/
def bwdRow (Ui : Row α) (i : Nat) (b : List α) : α × α :=
  Ui.foldl (fun (acc : α × α) e => if e.1 == i then (e.2, acc.2) else (acc.1, acc.2 - e.2 * vget b e.1))
    (Scalar.n 0, vget b i)

/-- `U x = y` in place, rows descending.  `tiny d` is the test `std::abs(diag) < 1e-12`, after which the
    code prints a message and calls `std::exit(EXIT_FAILURE)`: outcome `none`. -/
def bwdSolve (tiny : α → Bool) (U : List (Row α)) : Nat → List α → Option (List α)
  | 0, b => some b
  | i + 1, b =>
      let r := bwdRow (U.getD i []) i b
      if tiny r.1 then none else bwdSolve tiny U i (b.set i (r.2 / r.1))

/-- `SparseLUSolver::solveInPlace` on a stored factorisation -/
def solve (tiny : α → Bool) (LU : List (Row α) × List (Row α)) (b : List α) : Option (List α) :=
  bwdSolve tiny LU.2 LU.2.length (fwdSolve LU.1 b)

/-- dense product `A x` -/
def mulDense (A : CSR α) (x : List α) : List α :=
  (List.range A.rows).map fun i => (loadRow A i).foldl (fun s e => s + e.2 * vget x e.1) (Scalar.n 0)

end SparseLU
