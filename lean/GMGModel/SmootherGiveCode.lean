import GMGModel.SmootherCode
import GMGModel.DirectGiveCode
/-!
# Zebra line smoother — code level (give strategy)
mirrors `src/Smoother/SmootherGive/buildMatrix.cpp` (`UPDATE_MATRIX_ELEMENT`, `COO_CSR_UPDATE` (non-MUMPS branch),
`NODE_BUILD_SMOOTHER_GIVE` with its six position classes, the zero initialisation and the sequential branch of
`buildAscMatrices()`), `src/Smoother/SmootherGive/smootherSolver.cpp` (`NODE_APPLY_ASC_ORTHO_CIRCLE_GIVE`,
`NODE_APPLY_ASC_ORTHO_RADIAL_GIVE`, `applyAscOrthoCircleSection`, `applyAscOrthoRadialSection`, `solveCircleSection`,
`solveRadialSection`, `smoothingSequential`) and the offsets of `circle_stencil_across_origin_` / `stencil_DB_` of
`include/Smoother/SmootherGive/smootherGive.h` (Center 0, Left 1, Bottom 2, Top 3; `C06g.inner_offsets_generated` ties them
to the regenerated table).

**Assembly.**  Every node ACCUMULATES (`+=`) into its own line matrix and into the line matrices of its neighbours.  A store
into a `SymmetricTridiagonalSolver` goes through `UPDATE_MATRIX_ELEMENT(matrix, row, column, value)`, which picks the cell
from `(row, column)`: `main_diagonal(row)` if `row == column`, `sub_diagonal(row)` if `row == column - 1`,
`cyclic_corner_element()` if `row == 0 && column == columns() - 1`, and NOTHING otherwise (`triSlot` returns `none`: the
lower-triangular twin of every off-diagonal pair is dropped by the macro, not by the caller).  What a node does not give is
transcribed too: no coupling between circle and radial section and none to the outer Dirichlet row is stored (they live in
`A_sc^ortho` / are shifted to the right-hand side), the Dirichlet rows are the literal `1.0`, `sub_diagonal` towards the outer
Dirichlet node is never touched (stays the initial `0.0`).  The storage is a memory `Slot → α`; a cell's final content is
its zero initial value plus everything addressed to it, added IN EXECUTION ORDER (`slotVal`), so the `Float` instance
reproduces the single-threaded assembly bit for bit.  Sequential order: circle sections `i_r = 0 … nc-1`, then radial
sections `i_theta = 0 … nt-1` (`DirectGiveCode.nodeOrder`, the same loop nest).

**Sweep** (`smoothingSequential`).  `temp = rhs`; for each of the four phases: the scatter kernels of ALL sections run
first (every node subtracts its share of `A_sc^ortho x` from `temp` of its own line or of the neighbouring lines, depending
on its colour), then the lines of the phase's colour are solved in place in `temp` and copied to `x`.
Row-major arrays as in `SmootherCode`; `nc = numberSmootherCircles()`.

What is NOT here: the MUMPS branch, the OpenMP variants `smoothingForLoop` (several threads) / `smoothingTaskLoop` /
`smoothingTaskDependencies` (they apply the same node kernels in another order: `Sched.lean`), the library's node numbering.
-/
namespace SmootherGiveCode
open Stencil Scalar SmootherCode
variable {α : Type} [Scalar α]

/-! ### assembly -/

/-- a storage cell of the solver objects: `circle_tridiagonal_solver_[i].main_diagonal(j)` / `.sub_diagonal(j)` /
    `.cyclic_corner_element()`, the same for `radial_tridiagonal_solver_[j]` (local index `t = i_r - nc`), and
    `inner_boundary_circle_matrix_.row_nz_entry(row, off)` -/
inductive Slot
  | cMain (i j : Nat) | cSub (i j : Nat) | cCorner (i : Nat)
  | rMain (j t : Nat) | rSub (j t : Nat) | rCorner (j : Nat)
  | inner (row off : Nat)
  deriving DecidableEq, Repr

/-- the tridiagonal solver objects -/
inductive Mat | circle (i : Nat) | radial (j : Nat)
  deriving DecidableEq, Repr

/-- one accumulating store: cell, column index (stored by `COO_CSR_UPDATE` only), value -/
abbrev AUpd (α : Type) := Slot × Nat × α

/-- the cell `UPDATE_MATRIX_ELEMENT(matrix, row, column, ·)` addresses (`cols = matrix.columns()`); `none` = no branch taken -/
def triSlot (cols : Nat) (M : Mat) (row col : Nat) : Option Slot :=
  if row = col then some (match M with | .circle i => .cMain i row | .radial j => .rMain j row)
  else if row + 1 = col then some (match M with | .circle i => .cSub i row | .radial j => .rSub j row)
  else if row = 0 ∧ col + 1 = cols then some (match M with | .circle i => .cCorner i | .radial j => .rCorner j)
  else none

section
variable (o : Op α) (nc : Nat)

/-- `matrix.columns()`: `ntheta` for a circle, `lengthSmootherRadial()` for a radial line -/
def matCols : Mat → Nat
  | .circle _ => o.nt
  | .radial _ => o.nr - nc

/-- `UPDATE_MATRIX_ELEMENT(M, row, col, v)` -/
def tri (M : Mat) (row col : Nat) (v : α) : List (AUpd α) :=
  match triSlot (matCols o nc M) M row col with
  | some s => [(s, col, v)]
  | none => []

/-- `COO_CSR_UPDATE(inner_boundary_circle_matrix, ptr, off, row, col, v)`: `row_nz_index(row, off) = col; row_nz_entry(row, off) += v` -/
def csr (row off col : Nat) (v : α) : List (AUpd α) := [(.inner row off, col, v)]

/-- `0.25 * (h1 + h2) * (k1 + k2) * coeff_beta * fabs(detDF)` -/
abbrev mass (i j : Nat) : α := DirectGiveCode.massValue o i j
/-- `(coeff1 + coeff2) * arr + (coeff3 + coeff4) * att` -/
abbrev diag (i j : Nat) : α := DirectGiveCode.diagValue o i j

/-- "Node in the interior of the Circle Section" (`0 < i_r < nc`): own circle (own row and the rows of the two angular
    neighbours), the diagonal of the circle inside (CSR matrix if that is the innermost circle across the origin, nothing if it
    is the Dirichlet circle), the diagonal of the circle — or of the radial line's first node — outside -/
def circleInterior (i j : Nat) : List (AUpd α) :=
  let C := Mat.circle i
  let R := if i + 1 = nc then Mat.radial j else Mat.circle (i + 1)
  let ri := if i + 1 = nc then 0 else j
  tri o nc C j j (mass o i j) ++
  tri o nc C j (jm o j) (-(coeff3 o i j) * o.att i j) ++
  tri o nc C j (jp o j) (-(coeff4 o i j) * o.att i j) ++
  tri o nc C j j (diag o i j) ++
  tri o nc C (jm o j) j (-(coeff3 o i j) * o.att i j) ++
  tri o nc C (jm o j) (jm o j) (coeff3 o i j * o.att i j) ++
  tri o nc C (jp o j) j (-(coeff4 o i j) * o.att i j) ++
  tri o nc C (jp o j) (jp o j) (coeff4 o i j * o.att i j) ++
  (if !o.bc ∧ i = 1 then csr j 0 j (coeff1 o i j * o.arr i j) else []) ++
  (if 1 < i then tri o nc (.circle (i - 1)) j j (coeff1 o i j * o.arr i j) else []) ++
  tri o nc R ri ri (coeff2 o i j * o.arr i j)

/-- "Node in the interior of the Radial Section" (`nc < i_r < nr - 2`), local index `t = i_r - nc` -/
def radialInterior (i j : Nat) : List (AUpd α) :=
  let C := Mat.radial j
  let t := i - nc
  tri o nc C t t (mass o i j) ++
  tri o nc C t (t - 1) (-(coeff1 o i j) * o.arr i j) ++
  tri o nc C t (t + 1) (-(coeff2 o i j) * o.arr i j) ++
  tri o nc C t t (diag o i j) ++
  tri o nc C (t - 1) t (-(coeff1 o i j) * o.arr i j) ++
  tri o nc C (t - 1) (t - 1) (coeff1 o i j * o.arr i j) ++
  tri o nc C (t + 1) t (-(coeff2 o i j) * o.arr i j) ++
  tri o nc C (t + 1) (t + 1) (coeff2 o i j * o.arr i j) ++
  tri o nc (.radial (jm o j)) t t (coeff3 o i j * o.att i j) ++
  tri o nc (.radial (jp o j)) t t (coeff4 o i j * o.att i j)

/-- "Circle Section: Node in the inner boundary", Dirichlet: literal `1.0`, and the share of the first interior circle's diagonal -/
def innerDirichlet (j : Nat) : List (AUpd α) :=
  csr j 0 j (n 1) ++ tri o nc (.circle 1) j j (coeff2 o 0 j * o.arr 0 j)

/-- … across the origin: own row (Center, Left, Bottom, Top, Center), the row of the antipode ("Right -> Left"), the first
    interior circle's diagonal, the rows of the two angular neighbours; the mixed terms are "REMOVED DUE TO ARTIFICAL 7 POINT
    STENCIL" -/
def innerAcross (j : Nat) : List (AUpd α) :=
  csr j 0 j (mass o 0 j) ++
  csr j 1 (ja o j) (-(coeff1 o 0 j) * o.arr 0 j) ++
  csr j 2 (jm o j) (-(coeff3 o 0 j) * o.att 0 j) ++
  csr j 3 (jp o j) (-(coeff4 o 0 j) * o.att 0 j) ++
  csr j 0 j (diag o 0 j) ++
  csr (ja o j) 1 j (-(coeff1 o 0 j) * o.arr 0 j) ++
  csr (ja o j) 0 (ja o j) (coeff1 o 0 j * o.arr 0 j) ++
  tri o nc (.circle 1) j j (coeff2 o 0 j * o.arr 0 j) ++
  csr (jm o j) 3 j (-(coeff3 o 0 j) * o.att 0 j) ++
  csr (jm o j) 0 (jm o j) (coeff3 o 0 j * o.att 0 j) ++
  csr (jp o j) 2 j (-(coeff4 o 0 j) * o.att 0 j) ++
  csr (jp o j) 0 (jp o j) (coeff4 o 0 j * o.att 0 j)

/-- "Radial Section: Node next to circular section" (`i_r = nc`, local index 0): no "Left" entry in the own matrix, the
    diagonal share goes to the last circle -/
def radialFirst (i j : Nat) : List (AUpd α) :=
  let C := Mat.radial j
  tri o nc C 0 0 (mass o i j) ++
  tri o nc C 0 1 (-(coeff2 o i j) * o.arr i j) ++
  tri o nc C 0 0 (diag o i j) ++
  tri o nc (.circle (i - 1)) j j (coeff1 o i j * o.arr i j) ++
  tri o nc C 1 0 (-(coeff2 o i j) * o.arr i j) ++
  tri o nc C 1 1 (coeff2 o i j * o.arr i j) ++
  tri o nc (.radial (jm o j)) 0 0 (coeff3 o i j * o.att i j) ++
  tri o nc (.radial (jp o j)) 0 0 (coeff4 o i j * o.att i j)

/-- "Radial Section: Node next to outer boundary" (`i_r = nr - 2`): nothing towards the outer Dirichlet row -/
def radialNextOuter (i j : Nat) : List (AUpd α) :=
  let C := Mat.radial j
  let t := i - nc
  tri o nc C t t (mass o i j) ++
  tri o nc C t (t - 1) (-(coeff1 o i j) * o.arr i j) ++
  tri o nc C t t (diag o i j) ++
  tri o nc C (t - 1) t (-(coeff1 o i j) * o.arr i j) ++
  tri o nc C (t - 1) (t - 1) (coeff1 o i j * o.arr i j) ++
  tri o nc (.radial (jm o j)) t t (coeff3 o i j * o.att i j) ++
  tri o nc (.radial (jp o j)) t t (coeff4 o i j * o.att i j)

/-- "Radial Section: Node on the outer boundary" (`i_r = nr - 1`): literal `1.0`, and the diagonal share of its neighbour -/
def radialOuter (i j : Nat) : List (AUpd α) :=
  let C := Mat.radial j
  let t := i - nc
  tri o nc C t t (n 1) ++
  tri o nc C (t - 1) (t - 1) (coeff1 o i j * o.arr i j)

/-- the stores of `NODE_BUILD_SMOOTHER_GIVE` for node `(i, j)`, in code order; the case distinction is the macro's
    `if (0 < i_r < nc) … else if (nc < i_r < nr-2) … else if (i_r == 0) … else if (i_r == nc) … else if (i_r == nr-2) …
    else if (i_r == nr-1)` -/
def nodeUpdates (i j : Nat) : List (AUpd α) :=
  if 0 < i ∧ i < nc then circleInterior o nc i j
  else if nc < i ∧ i + 2 < o.nr then radialInterior o nc i j
  else if i = 0 then (if o.bc then innerDirichlet o nc j else innerAcross o nc j)
  else if i = nc then radialFirst o nc i j
  else if i + 2 = o.nr then radialNextOuter o nc i j
  else if i + 1 = o.nr then radialOuter o nc i j
  else []

/-- all stores of `buildAscMatrices()` (`omp_get_max_threads() == 1`) in execution order -/
def allUpdates : List (AUpd α) :=
  (DirectGiveCode.nodeOrder o nc).flatMap fun p => nodeUpdates o nc p.1 p.2

end

/-- content of cell `s` after the stores `us` on zero-initialised storage (`main_diagonal(i) = 0.0`, `sub_diagonal(i) = 0.0`,
    `cyclic_corner_element() = 0.0`, `values_data()[i] = 0.0`) -/
def slotVal (us : List (AUpd α)) (s : Slot) : α :=
  us.foldl (fun acc u => if u.1 = s then acc + u.2.2 else acc) (n 0)

/-- column index of a CSR cell: the last `row_nz_index(row, off) = col` (value-initialised before) -/
def slotCol (us : List (AUpd α)) (s : Slot) : Nat :=
  us.foldl (fun acc u => if u.1 = s then u.2.1 else acc) 0

/-! ### what `buildAscMatrices` leaves in the solver objects (`us` = the executed stores) -/

def circleMainOf (us : List (AUpd α)) (nt i : Nat) : List α := (List.range nt).map fun j => slotVal us (.cMain i j)
def circleSubOf (us : List (AUpd α)) (nt i : Nat) : List α := (List.range (nt - 1)).map fun j => slotVal us (.cSub i j)
def circleCornerOf (us : List (AUpd α)) (i : Nat) : α := slotVal us (.cCorner i)
def radialMainOf (us : List (AUpd α)) (len j : Nat) : List α := (List.range len).map fun t => slotVal us (.rMain j t)
def radialSubOf (us : List (AUpd α)) (len j : Nat) : List α := (List.range (len - 1)).map fun t => slotVal us (.rSub j t)
/-- row `j` of `inner_boundary_circle_matrix_` in storage order (`nnz_per_row = DirBC_Interior ? 1 : 4`) -/
def innerRowOf (us : List (AUpd α)) (bc : Bool) (j : Nat) : List (Nat × α) :=
  (List.range (if bc then 1 else 4)).map fun q => (slotCol us (.inner j q), slotVal us (.inner j q))

def circleSolverOf (us : List (AUpd α)) (nt i : Nat) : Tridiag.State α :=
  Tridiag.mk (circleMainOf us nt i) (circleSubOf us nt i) (circleCornerOf us i) true
def radialSolverOf (us : List (AUpd α)) (len j : Nat) : Tridiag.State α :=
  Tridiag.mk (radialMainOf us len j) (radialSubOf us len j) (n 0) false
def innerCSROf (us : List (AUpd α)) (bc : Bool) (nt : Nat) : SparseLU.CSR α :=
  let rows := (List.range nt).map (innerRowOf us bc)
  let w := if bc then 1 else 4
  ⟨nt, nt, rows.flatMap (·.map (·.2)), rows.flatMap (·.map (·.1)), (List.range (nt + 1)).map (· * w)⟩

section
variable (o : Op α) (nc : Nat)
def circleMain (i : Nat) : List α := circleMainOf (allUpdates o nc) o.nt i
def circleSub (i : Nat) : List α := circleSubOf (allUpdates o nc) o.nt i
def circleCorner (i : Nat) : α := circleCornerOf (allUpdates o nc) i
def radialMain (j : Nat) : List α := radialMainOf (allUpdates o nc) (o.nr - nc) j
def radialSub (j : Nat) : List α := radialSubOf (allUpdates o nc) (o.nr - nc) j
def innerRow (j : Nat) : List (Nat × α) := innerRowOf (allUpdates o nc) o.bc j
def innerCSR : SparseLU.CSR α := innerCSROf (allUpdates o nc) o.bc o.nt
end

/-! ### `temp -= A_sc^ortho x`, scattered -/

inductive Colour | black | white
  deriving DecidableEq, Repr

/-- one `temp[grid.index(i, j)] -= v` -/
abbrev TUpd (α : Type) := Nat × Nat × α

section
variable (o : Op α) (nc : Nat)

/-- colour of circle `i_r` (`isOddNumberSmootherCircles == isOddRadialIndex ? White : Black`: circle `nc - 1` is black,
    the first radial node `nc` counts as white) -/
def circleColour (i : Nat) : Colour := if (nc % 2 = 1 ↔ i % 2 = 1) then .white else .black
/-- colour of radial line `i_theta` (`(i_theta & 1) ? White : Black`) -/
def radialColour (j : Nat) : Colour := if j % 2 = 1 then .white else .black

/-- "Fill temp(i-1,j)" of a node outside the solved section -/
def giveLeft (x : Field α) (i j : Nat) : TUpd α :=
  (i - 1, j, -(coeff1 o i j) * o.arr i j * x i j - quarter * o.art i j * x i (jp o j) + quarter * o.art i j * x i (jm o j))
/-- "Fill temp(i+1,j)" of a node outside the solved section -/
def giveRight (x : Field α) (i j : Nat) : TUpd α :=
  (i + 1, j, -(coeff2 o i j) * o.arr i j * x i j + quarter * o.art i j * x i (jp o j) - quarter * o.art i j * x i (jm o j))
/-- "Fill temp(i,j-1)" of a node outside the solved section -/
def giveBottom (x : Field α) (i j : Nat) : TUpd α :=
  (i, jm o j, -(coeff3 o i j) * o.att i j * x i j - quarter * o.art i j * x (i + 1) j + quarter * o.art i j * x (i - 1) j)
/-- "Fill temp(i,j+1)" of a node outside the solved section -/
def giveTop (x : Field α) (i j : Nat) : TUpd α :=
  (i, jp o j, -(coeff4 o i j) * o.att i j * x i j + quarter * o.art i j * x (i + 1) j - quarter * o.art i j * x (i - 1) j)

/-- `NODE_APPLY_ASC_ORTHO_CIRCLE_GIVE` for `smoother_color = c` at node `(i, j)`, `0 ≤ i ≤ nc`, in code order -/
def circleOrtho (c : Colour) (x : Field α) (i j : Nat) : List (TUpd α) :=
  if 0 < i ∧ i < nc then
    if circleColour nc i = c then
      [(i, j, -(coeff1 o i j) * o.arr i j * x (i - 1) j - coeff2 o i j * o.arr i j * x (i + 1) j),
       (i, jm o j, -quarter * o.art i j * x (i + 1) j + quarter * o.art i j * x (i - 1) j),
       (i, jp o j, quarter * o.art i j * x (i + 1) j - quarter * o.art i j * x (i - 1) j)]
    else
      (if 1 < i ∨ !o.bc then [giveLeft o x i j] else []) ++
      (if i + 1 < nc then [giveRight o x i j] else [])
  else if i = 0 then
    if o.bc then
      (if circleColour nc i = c then [] else [giveRight o x 0 j])
    else
      if circleColour nc i = c then
        -- "Left: Not in Asc_ortho"; "Top Left", "Bottom Left": "REMOVED DUE TO ARTIFICAL 7 POINT STENCIL"
        [(0, j, -(coeff2 o 0 j) * o.arr 0 j * x 1 j),
         (0, jm o j, -quarter * o.art 0 j * x 1 j),
         (0, jp o j, quarter * o.art 0 j * x 1 j)]
      else [giveRight o x 0 j]
  else if i = nc then
    (if c = .black then [giveLeft o x i j] else [])
  else []

/-- `NODE_APPLY_ASC_ORTHO_RADIAL_GIVE` for `smoother_color = c` at node `(i, j)`, `nc - 1 ≤ i < nr`, in code order
    (`f` = `rhs`: the outer Dirichlet datum is moved to the right-hand side, "Right: Symmetry shift!") -/
def radialOrtho (c : Colour) (f x : Field α) (i j : Nat) : List (TUpd α) :=
  if nc < i ∧ i + 2 < o.nr then
    if radialColour j = c then
      [(i, j, -(coeff3 o i j) * o.att i j * x i (jm o j) - coeff4 o i j * o.att i j * x i (jp o j)),
       (i - 1, j, -quarter * o.art i j * x i (jp o j) + quarter * o.art i j * x i (jm o j)),
       (i + 1, j, quarter * o.art i j * x i (jp o j) - quarter * o.art i j * x i (jm o j))]
    else [giveBottom o x i j, giveTop o x i j]
  else if i + 1 = nc then
    (if radialColour j = c then [giveRight o x i j] else [])
  else if i = nc then
    if radialColour j = c then
      [(i, j, -(coeff1 o i j) * o.arr i j * x (i - 1) j - coeff3 o i j * o.att i j * x i (jm o j)
                - coeff4 o i j * o.att i j * x i (jp o j)),
       (i + 1, j, quarter * o.art i j * x i (jp o j) - quarter * o.art i j * x i (jm o j))]
    else [giveBottom o x i j, giveTop o x i j]
  else if i + 2 = o.nr then
    if radialColour j = c then
      [(i, j, -(coeff3 o i j) * o.att i j * x i (jm o j) - coeff4 o i j * o.att i j * x i (jp o j)),
       (i - 1, j, -quarter * o.art i j * x i (jp o j) + quarter * o.art i j * x i (jm o j)),
       (i, j, -(coeff2 o i j) * o.arr i j * f (i + 1) j)]
    else [giveBottom o x i j, giveTop o x i j]
  else if i + 1 = o.nr then
    if radialColour j = c then
      [(i - 1, j, -quarter * o.art i j * x i (jp o j) + quarter * o.art i j * x i (jm o j)),
       (i - 1, j, -(coeff1 o i j) * o.arr i j * f i j)]
    else []
  else []

/-- `applyAscOrthoCircleSection(i_r, c, x, rhs, temp)` -/
def circleSection (c : Colour) (x : Field α) (i : Nat) : List (TUpd α) :=
  (List.range o.nt).flatMap fun j => circleOrtho o nc c x i j

/-- `applyAscOrthoRadialSection(i_theta, c, x, rhs, temp)`: "!!! i_r = grid_.numberSmootherCircles()-1 !!!" -/
def radialSection (c : Colour) (f x : Field α) (j : Nat) : List (TUpd α) :=
  (List.range (o.nr - (nc - 1))).flatMap fun t => radialOrtho o nc c f x (nc - 1 + t) j

end

/-- `temp[i * nt + j] -= v` -/
def applyT (nt : Nat) (t : Array α) (u : TUpd α) : Array α := t.modify (u.1 * nt + u.2.1) (· - u.2.2)
def applyAll (nt : Nat) (t : Array α) (us : List (TUpd α)) : Array α := us.foldl (applyT nt) t

/-- the slice of `temp` a circle solve works on -/
def circleSeg (nt : Nat) (t : Array α) (i : Nat) : List α := (List.range nt).map fun j => t.getD (i * nt + j) (n 0)
/-- the slice of `temp` a radial solve works on -/
def radialSeg (nr nt nc : Nat) (t : Array α) (j : Nat) : List α :=
  (List.range (nr - nc)).map fun s => t.getD ((nc + s) * nt + j) (n 0)

section
variable (o : Op α) (nc : Nat)

/-- the four scatter passes of `smoothingSequential` (all sections, before the solves of the phase) -/
def orthoBlackCircles (x t : Array α) : Array α :=
  applyAll o.nt t ((List.range (nc + 1)).flatMap (circleSection o nc .black (fld o.nt x)))
def orthoWhiteCircles (x t : Array α) : Array α :=
  applyAll o.nt t ((List.range nc).flatMap (circleSection o nc .white (fld o.nt x)))
def orthoBlackRadials (f : Field α) (x t : Array α) : Array α :=
  applyAll o.nt t ((List.range o.nt).flatMap (radialSection o nc .black f (fld o.nt x)))
def orthoWhiteRadials (f : Field α) (x t : Array α) : Array α :=
  applyAll o.nt t ((List.range o.nt).flatMap (radialSection o nc .white f (fld o.nt x)))

/-- `solveCircleSection(i_r, x, temp, …)`: solve in place in `temp`, then copy the slice to `x`; state = `(x, temp)` -/
def circleSolveStep (us : List (AUpd α)) (tiny : α → Bool) (s : Option (Array α × Array α)) (i : Nat) :
    Option (Array α × Array α) :=
  s.bind fun st =>
    let rhs := circleSeg o.nt st.2 i
    let sol := if i = 0 then SparseLU.solve tiny (SparseLU.factorRows (innerCSROf us o.bc o.nt)) rhs
               else some (Tridiag.solve (circleSolverOf us o.nt i) rhs).2
    sol.map fun v => (writeCircle o.nt st.1 i v, writeCircle o.nt st.2 i v)

/-- `solveRadialSection(i_theta, x, temp, …)` -/
def radialSolveStep (us : List (AUpd α)) (st : Array α × Array α) (j : Nat) : Array α × Array α :=
  let v := (Tridiag.solve (radialSolverOf us (o.nr - nc) j) (radialSeg o.nr o.nt nc st.2 j)).2
  (writeRadial o.nt nc st.1 j v, writeRadial o.nt nc st.2 j v)

/-- `SmootherGive::smoothingSequential` with the matrices of `buildAscMatrices()`; `none` = the sparse LU's `std::exit` branch.
    Returns `(x, temp)`. -/
def sweepState (tiny : α → Bool) (f : Field α) (x : Array α) : Option (Array α × Array α) :=
  let us := allUpdates o nc
  let t0 := ofField o.nr o.nt f
  let s1 := (blackCircles nc).foldl (circleSolveStep o us tiny) (some (x, orthoBlackCircles o nc x t0))
  let s2 := s1.bind fun st =>
    (whiteCircles nc).foldl (circleSolveStep o us tiny) (some (st.1, orthoWhiteCircles o nc st.1 st.2))
  s2.map fun st =>
    let st3 := (blackRadials o.nt).foldl (radialSolveStep o nc us) (st.1, orthoBlackRadials o nc f st.1 st.2)
    (whiteRadials o.nt).foldl (radialSolveStep o nc us) (st3.1, orthoWhiteRadials o nc f st3.1 st3.2)

/-- the iterate after one sequential sweep -/
def sweep (tiny : α → Bool) (f : Field α) (x : Array α) : Option (Array α) :=
  (sweepState o nc tiny f x).map (·.1)

end
end SmootherGiveCode
