import GMGModel.Scalar
/-!
# Symbolic input functions: expressions in (r, θ), evaluation, symbolic differentiation, the PDE operator
mirrors the small analytic functions of `src/InputFunctions/**` and `include/InputFunctions/DomainGeometry/*.inl`
(exact solutions, coefficient profiles, geometry mappings and their Jacobians, boundary data), which the translator
`tools/cxx_expr.py` turns into `Expr` terms on every run.

From `(u, α, β, Fx, Fy)` the model DERIVES the source term
`Lu = -(1/det) [∂_r(α det (g^rr u_r + g^rθ u_θ)) + ∂_θ(α det (g^θr u_r + g^θθ u_θ))] + β u`, `g = (DFᵀ DF)⁻¹`,
with the Jacobian itself obtained by symbolic differentiation of the mapping.
-/

/-- scalars with the elementary functions the input functions use -/
class Elem (α : Type) extends Scalar α where
  sqrt : α → α
  sin : α → α
  cos : α → α
  exp : α → α
  tanh : α → α
  atan : α → α
  pi : α

instance : Elem Float := { sqrt := Float.sqrt, sin := Float.sin, cos := Float.cos, exp := Float.exp, tanh := Float.tanh, atan := Float.atan,
                            pi := Float.ofBits 0x400921FB54442D18 }

namespace Sym

inductive Var | r | th
  deriving DecidableEq, Repr

inductive Expr
  | v (x : Var)
  | num (n : Int) (d : Nat)        -- the rational n / d (decimal literals)
  | pi
  | par (i : Nat)                  -- 0 Rmax, 1 kappa_eps, 2 delta_e, 3 alpha_jump
  | add (a b : Expr)
  | sub (a b : Expr)
  | mul (a b : Expr)
  | div (a b : Expr)
  | neg (a : Expr)
  | powN (a : Expr) (k : Nat)
  | sqrt (a : Expr)
  | sin (a : Expr)
  | cos (a : Expr)
  | exp (a : Expr)
  | tanh (a : Expr)
  | atan (a : Expr)
  deriving Repr, Inhabited, DecidableEq

namespace Expr
variable {α : Type} [Elem α]

def npow (x : α) : Nat → α
  | 0 => Scalar.n 1
  | k + 1 => npow x k * x

/-- evaluation over any scalar type with elementary functions (Float in the driver, ℝ in the proofs) -/
def eval (env : Nat → α) (r th : α) : Expr → α
  | v .r => r
  | v .th => th
  | num n d => (if n < 0 then -(Scalar.n n.natAbs : α) else Scalar.n n.natAbs) / Scalar.n d
  | pi => Elem.pi
  | par i => env i
  | add a b => eval env r th a + eval env r th b
  | sub a b => eval env r th a - eval env r th b
  | mul a b => eval env r th a * eval env r th b
  | div a b => eval env r th a / eval env r th b
  | neg a => -(eval env r th a)
  | powN a k => npow (eval env r th a) k
  | sqrt a => Elem.sqrt (eval env r th a)
  | sin a => Elem.sin (eval env r th a)
  | cos a => Elem.cos (eval env r th a)
  | exp a => Elem.exp (eval env r th a)
  | tanh a => Elem.tanh (eval env r th a)
  | atan a => Elem.atan (eval env r th a)

def zero : Expr := num 0 1
def one : Expr := num 1 1
def two : Expr := num 2 1
def isZero : Expr → Bool | num 0 _ => true | _ => false
def isOne : Expr → Bool | num 1 1 => true | _ => false

/-- smart constructors (keep derivatives small; semantics preserving) -/
def mkAdd (a b : Expr) : Expr := if a.isZero then b else if b.isZero then a else add a b
def mkSub (a b : Expr) : Expr := if b.isZero then a else if a.isZero then neg b else sub a b
def mkMul (a b : Expr) : Expr := if a.isZero || b.isZero then zero else if a.isOne then b else if b.isOne then a else mul a b
def mkDiv (a b : Expr) : Expr := if a.isZero then zero else div a b
def mkNeg (a : Expr) : Expr := if a.isZero then zero else neg a

/-- symbolic partial derivative -/
def D (x : Var) : Expr → Expr
  | v y => if x = y then one else zero
  | num _ _ => zero
  | pi => zero
  | par _ => zero
  | add a b => mkAdd (D x a) (D x b)
  | sub a b => mkSub (D x a) (D x b)
  | mul a b => mkAdd (mkMul (D x a) b) (mkMul a (D x b))
  | div a b => mkDiv (mkSub (mkMul (D x a) b) (mkMul a (D x b))) (mul b b)
  | neg a => mkNeg (D x a)
  | powN _ 0 => zero
  | powN a (k + 1) => mkMul (mkMul (num (k + 1 : Nat) 1) (powN a k)) (D x a)
  | sqrt a => mkDiv (D x a) (mul two (sqrt a))
  | sin a => mkMul (cos a) (D x a)
  | cos a => mkNeg (mkMul (sin a) (D x a))
  | exp a => mkMul (exp a) (D x a)
  | tanh a => mkMul (sub one (mul (tanh a) (tanh a))) (D x a)
  | atan a => mkDiv (D x a) (add one (mul a a))

def size : Expr → Nat
  | add a b | sub a b | mul a b | div a b => size a + size b + 1
  | neg a | powN a _ | sqrt a | sin a | cos a | exp a | tanh a | atan a => size a + 1
  | _ => 1

end Expr

open Expr

/-- a shipped test problem: exact solution, coefficients, mapping -/
structure Problem where
  u : Expr
  alpha : Expr
  beta : Expr
  Fx : Expr
  Fy : Expr

/-- determinant of the Jacobian of the mapping (by symbolic differentiation) -/
def detJ (p : Problem) : Expr :=
  sub (mul (D .r p.Fx) (D .th p.Fy)) (mul (D .th p.Fx) (D .r p.Fy))

/-- the flux components `P = α det (g^rr u_r + g^rθ u_θ)`, `Q = α det (g^θr u_r + g^θθ u_θ)` -/
def flux (p : Problem) : Expr × Expr :=
  let Jrr := D .r p.Fx; let Jrt := D .th p.Fx; let Jtr := D .r p.Fy; let Jtt := D .th p.Fy
  let det := detJ p
  let grr := div (add (mul Jrt Jrt) (mul Jtt Jtt)) (mul det det)
  let grt := div (neg (add (mul Jrr Jrt) (mul Jtr Jtt))) (mul det det)
  let gtt := div (add (mul Jrr Jrr) (mul Jtr Jtr)) (mul det det)
  let ur := D .r p.u; let ut := D .th p.u
  (mul (mul p.alpha det) (add (mul grr ur) (mul grt ut)), mul (mul p.alpha det) (add (mul grt ur) (mul gtt ut)))

/-- `-div(α ∇u) + β u` in (r, θ) coordinates -/
def Lu (p : Problem) : Expr :=
  let f := flux p
  add (neg (div (add (D .r f.1) (D .th f.2)) (detJ p))) (mul p.beta p.u)

end Sym
