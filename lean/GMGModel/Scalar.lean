/-!
# Scalar interface of the model

Every numerical kernel of the model is written once over an abstract scalar.
Instances: `Rat` (exact execution in the driver), `Float` (second opinion), and in
`GMGProofs` every `Field` (the theorems).  Core Lean only: no Mathlib import here.
-/

class Scalar (α : Type) extends Add α, Sub α, Mul α, Div α, Neg α where
  ofNat : Nat → α

namespace Scalar
variable {α : Type} [Scalar α]
/-- numeric literal `k` in the scalar type -/
abbrev n (k : Nat) : α := Scalar.ofNat k
end Scalar

instance : Scalar Rat := { ofNat := fun k => (k : Rat) }
instance : Scalar Float := { ofNat := Float.ofNat }
