import GMGModel.Scalar
/-!
# Grid transfer operators
mirrors `src/Interpolation/{prolongation,restriction,extrapolated_prolongation,extrapolated_restriction,injection,
fmg_interpolation}.cpp` (node formulas of the optimised versions; the `…0` reference versions compute the same
expressions through `multiIndex` / neighbour queries).

A fine/coarse pair: fine `nrF × ntF`, coarse `(nrF+1)/2 × ntF/2`, coarse node `(I, J)` is fine node `(2I, 2J)`.
Fields are functions `Nat → Nat → α`; angular indices are wrapped as `grid.index` does.
-/
namespace Interp
variable {α : Type} [Scalar α]
open Scalar

structure Pair (α : Type) where
  nrF : Nat
  ntF : Nat
  hF : Nat → α     -- fine radialSpacing(i)
  kF : Nat → α     -- fine angularSpacing(j), 0 ≤ j < ntF
  hC : Nat → α     -- coarse radialSpacing(I)
  kC : Nat → α     -- coarse angularSpacing(J)

variable (p : Pair α)

def nrC : Nat := (p.nrF + 1) / 2
def ntC : Nat := p.ntF / 2
/-- fine angular index `j + d` wrapped (d given as an offset `ntF + d ≥ 0`) -/
def wF (j : Nat) : Nat := j % p.ntF
def wC (j : Nat) : Nat := j % ntC p

abbrev Field (α : Type) := Nat → Nat → α

def half : α := n 1 / n 2

/-- `applyProlongation`: coarse `x` ↦ fine field -/
def prolong (x : Field α) (i j : Nat) : α :=
  let ic := i / 2; let jc := j / 2
  if i % 2 = 1 then
    let h1 := p.hF (i - 1); let h2 := p.hF i
    if j % 2 = 1 then
      let k1 := p.kF (wF p (j + p.ntF - 1)); let k2 := p.kF j
      let jcP := wC p (jc + 1)
      (h1 * k1 * x ic jc + h2 * k1 * x (ic + 1) jc + h1 * k2 * x ic jcP + h2 * k2 * x (ic + 1) jcP) / ((h1 + h2) * (k1 + k2))
    else
      (h1 * x ic jc + h2 * x (ic + 1) jc) / (h1 + h2)
  else
    if j % 2 = 1 then
      let k1 := p.kF (wF p (j + p.ntF - 1)); let k2 := p.kF j
      let jcP := wC p (jc + 1)
      (k1 * x ic jc + k2 * x ic jcP) / (k1 + k2)
    else x ic jc

/-- `applyRestriction`: fine `y` ↦ coarse field -/
def restrict (y : Field α) (I J : Nat) : α :=
  let i := 2 * I; let j := 2 * J
  let jM2 := wF p (j + p.ntF - 2); let jM1 := wF p (j + p.ntF - 1); let jP1 := wF p (j + 1)
  let k1 := p.kF jM2; let k2 := p.kF jM1; let k3 := p.kF j; let k4 := p.kF jP1
  let v := y i j + k2 * y i jM1 / (k1 + k2) + k3 * y i jP1 / (k3 + k4)
  let v := if I > 0 then
      let h1 := p.hF (i - 2); let h2 := p.hF (i - 1)
      v + (h2 * y (i - 1) j / (h1 + h2) + h2 * k2 * y (i - 1) jM1 / ((h1 + h2) * (k1 + k2))
           + h2 * k3 * y (i - 1) jP1 / ((h1 + h2) * (k3 + k4)))
    else v
  if I + 1 < nrC p then
      let h3 := p.hF i; let h4 := p.hF (i + 1)
      v + (h3 * y (i + 1) j / (h3 + h4) + h3 * k2 * y (i + 1) jM1 / ((h3 + h4) * (k1 + k2))
           + h3 * k3 * y (i + 1) jP1 / ((h3 + h4) * (k3 + k4)))
  else v

/-- `applyExtrapolatedProlongation` (index-space weights ½, anti-diagonal pair at odd/odd nodes) -/
def exProlong (x : Field α) (i j : Nat) : α :=
  let ic := i / 2; let jc := j / 2
  if i % 2 = 1 then
    if j % 2 = 1 then half * (x (ic + 1) jc + x ic (wC p (jc + 1)))
    else half * (x ic jc + x (ic + 1) jc)
  else
    if j % 2 = 1 then half * (x ic jc + x ic (wC p (jc + 1)))
    else x ic jc

/-- `applyExtrapolatedRestriction` -/
def exRestrict (y : Field α) (I J : Nat) : α :=
  let i := 2 * I; let j := 2 * J
  let jM1 := wF p (j + p.ntF - 1); let jP1 := wF p (j + 1)
  let v := y i j
  let v := if I > 0 then v + half * y (i - 1) j else v
  let v := if I + 1 < nrC p then v + half * y (i + 1) j else v
  let v := v + half * y i jM1
  let v := v + half * y i jP1
  let v := if I + 1 < nrC p then v + half * y (i + 1) jM1 else v      -- (r+1, θ-1)
  if I > 0 then v + half * y (i - 1) jP1 else v                          -- (r-1, θ+1)

/-- `applyInjection` -/
def inject (y : Field α) (I J : Nat) : α := y (2 * I) (2 * J)

/-! ### FMG interpolation (4-point Lagrange in each direction) -/

def w0 (h0 h1 h2 h3 : α) : α := -h1 / h0 * h2 / (h0 + h1 + h2) * (h2 + h3) / (h0 + h1 + h2 + h3)
def w1 (h0 h1 h2 h3 : α) : α := (h0 + h1) / h0 * h2 / (h1 + h2) * (h2 + h3) / (h1 + h2 + h3)
def w2 (h0 h1 h2 h3 : α) : α := (h0 + h1) / (h0 + h1 + h2) * h1 / (h1 + h2) * (h2 + h3) / h3
def w3 (h0 h1 h2 h3 : α) : α := -(h0 + h1) / (h0 + h1 + h2 + h3) * h1 / (h1 + h2 + h3) * h2 / h3

/-- the angular 4-point rule on coarse row `I` for an odd fine `j` -/
def thetaRule (x : Field α) (I j : Nat) : α :=
  let jc := j / 2
  let k0 := p.kC (wC p (jc + ntC p - 1)); let k1 := p.kF (wF p (j + p.ntF - 1)); let k2 := p.kF j; let k3 := p.kC (wC p (jc + 1))
  w0 k0 k1 k2 k3 * x I (wC p (jc + ntC p - 1)) + w1 k0 k1 k2 k3 * x I jc
    + w2 k0 k1 k2 k3 * x I (wC p (jc + 1)) + w3 k0 k1 k2 k3 * x I (wC p (jc + 2))

/-- `applyFMGInterpolation` -/
def fmgInterp (x : Field α) (i j : Nat) : α :=
  let ic := i / 2; let jc := j / 2
  if i = 0 ∨ i + 1 = p.nrF then
    if j % 2 = 1 then thetaRule p x ic j else x ic jc
  else if i = 1 ∨ i + 2 = p.nrF then
    let h1 := p.hF (i - 1); let h2 := p.hF i
    if j % 2 = 1 then (h1 * thetaRule p x ic j + h2 * thetaRule p x (ic + 1) j) / (h1 + h2)
    else (h1 * x ic jc + h2 * x (ic + 1) jc) / (h1 + h2)
  else
    if i % 2 = 1 then
      let h0 := p.hC (ic - 1); let h1 := p.hF (i - 1); let h2 := p.hF i; let h3 := p.hC (ic + 1)
      if j % 2 = 1 then
        w0 h0 h1 h2 h3 * thetaRule p x (ic - 1) j + w1 h0 h1 h2 h3 * thetaRule p x ic j
          + w2 h0 h1 h2 h3 * thetaRule p x (ic + 1) j + w3 h0 h1 h2 h3 * thetaRule p x (ic + 2) j
      else
        w0 h0 h1 h2 h3 * x (ic - 1) jc + w1 h0 h1 h2 h3 * x ic jc + w2 h0 h1 h2 h3 * x (ic + 1) jc + w3 h0 h1 h2 h3 * x (ic + 2) jc
    else
      if j % 2 = 1 then thetaRule p x ic j else x ic jc

end Interp
