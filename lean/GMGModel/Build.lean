import GMGModel.Concrete
import GMGModel.Cache
/-!
# From the inputs to the hierarchy: the data `setup()` hands to the operators
`Concrete.lean` takes a level hierarchy (`Hier`) as given.  Here it is BUILT the way `GMGPolar::setup()` builds it: the grids of
the levels (`Cache.GridData`: shape, split, node coordinates), the level caches (`Cache.fresh` on the finest level, `Cache.coarsen`
— sampling the finer cache at even indices — below), and per level the operator data every operator obtains node by node through
`LevelCache::obtainValues` (`Cache.obtain`), together with the grid spacings the stencils and the transfers read
(`radialSpacing(i) = radius(i+1) − radius(i)`, `angularSpacing(j) = theta(j+1) − theta(j)` with `theta(nt) = 2π`).
The input functions stay parameters (`Cache.Env`).  Theorems: `GMGProofs/Props/C10i.lean`.
-/
namespace Build
open Stencil Cache Concrete
variable {α : Type} [Scalar α]

/-- operator data of one level as the operators obtain it (cached or not) -/
def opOf (E : Env α) (G : GridData α) (bc : Bool) (c : LevelCache α) : Op α where
  nr := G.g.nr
  nt := G.g.nt
  bc := bc
  r0 := G.radius 0
  h := fun i => G.radius (i + 1) - G.radius i
  k := fun j => G.theta (j + 1) - G.theta j
  arr := fun i j => (obtain E G c i j).2.2.2.1
  att := fun i j => (obtain E G c i j).2.2.2.2.1
  art := fun i j => (obtain E G c i j).2.2.2.2.2.1
  det := fun i j => E.absF (obtain E G c i j).2.2.2.2.2.2     -- the caches hold detDF with its sign; every stencil uses fabs(detDF)
  beta := fun i => (obtain E G c i 0).2.2.1

/-- the same from the direct evaluation of the input functions at the nodes (no cache) -/
def opDirect (E : Env α) (G : GridData α) (bc : Bool) : Op α where
  nr := G.g.nr
  nt := G.g.nt
  bc := bc
  r0 := G.radius 0
  h := fun i => G.radius (i + 1) - G.radius i
  k := fun j => G.theta (j + 1) - G.theta j
  arr := fun i j => (direct E G i j).2.2.2.1
  att := fun i j => (direct E G i j).2.2.2.2.1
  art := fun i j => (direct E G i j).2.2.2.2.2.1
  det := fun i j => E.absF (direct E G i j).2.2.2.2.2.2
  beta := fun i => (direct E G i 0).2.2.1

/-- the caches of the level chain: fresh on the finest grid, sampled from the next finer cache below -/
def cachesFrom (c : LevelCache α) (G : GridData α) : List (GridData α) → List (LevelCache α)
  | [] => [c]
  | G' :: rest => c :: cachesFrom (coarsen c G.g G'.g) G' rest

def caches (E : Env α) (cc cg : Bool) : List (GridData α) → List (LevelCache α)
  | [] => []
  | G :: rest => cachesFrom (fresh E G cc cg) G rest

/-- spacings of a fine / coarse grid pair as the transfer operators read them -/
def pairOf (GF GC : GridData α) : Interp.Pair α where
  nrF := GF.g.nr
  ntF := GF.g.nt
  hF := fun i => GF.radius (i + 1) - GF.radius i
  kF := fun j => GF.theta (j + 1) - GF.theta j
  hC := fun i => GC.radius (i + 1) - GC.radius i
  kC := fun j => GC.theta (j + 1) - GC.theta j

def pairs : List (GridData α) → List (Interp.Pair α)
  | G :: G' :: rest => pairOf G G' :: pairs (G' :: rest)
  | _ => []

/-- the hierarchy `setup()` builds from the level grids and the input functions -/
def hier (E : Env α) (grids : List (GridData α)) (bc cc cg : Bool) (tiny : α → Bool) (tables : DirectCode.Tables) : Hier α where
  levels := (grids.zip (caches E cc cg grids)).map fun p => ⟨opOf E p.1 bc p.2, p.1.g.nc⟩
  pairs := pairs grids
  tiny := tiny
  tables := tables

/-- the hierarchy from direct evaluation on every level (what the caches are supposed to reproduce) -/
def hierDirect (E : Env α) (grids : List (GridData α)) (bc : Bool) (tiny : α → Bool) (tables : DirectCode.Tables) : Hier α where
  levels := grids.map fun G => ⟨opDirect E G bc, G.g.nc⟩
  pairs := pairs grids
  tiny := tiny
  tables := tables

end Build
