/-!
# Grid index arithmetic  (mirrors `include/PolarGrid/polargrid.inl`, `src/PolarGrid/polargrid.cpp`)

Integers only.  `Grid` is the shape part of a `PolarGrid`:
`nr_`, `ntheta_`, `number_smoother_circles_`, `is_ntheta_PowerOfTwo_`.
-/

structure Grid where
  nr : Nat
  nt : Nat
  nc : Nat      -- number_smoother_circles_
  pow2 : Bool   -- is_ntheta_PowerOfTwo_
  deriving Repr, DecidableEq

namespace Grid

/-- `length_smoother_radial_` -/
def len (g : Grid) : Nat := g.nr - g.nc
/-- `number_circular_smoother_nodes_` -/
def ncirc (g : Grid) : Nat := g.nc * g.nt
/-- `number_radial_smoother_nodes_` -/
def nrad (g : Grid) : Nat := g.len * g.nt
def numNodes (g : Grid) : Nat := g.nr * g.nt

/-- `(ntheta_ & (ntheta_ - 1)) == 0` as the constructors compute it (for `ntheta_ ≥ 1`). -/
def pow2Flag (nt : Nat) : Bool := (nt &&& (nt - 1)) == 0

/-- 32-bit two's complement `x & mask` for a non-negative mask `< 2^31`:
    the result is the AND of the low 32 bits of `x` with the mask. -/
def and32 (x : Int) (mask : Nat) : Nat := (x % (2 ^ 32 : Int)).toNat &&& mask

/-- `PolarGrid::wrapThetaIndex`: both code paths, C semantics
    (`%` truncates towards zero = `Int.tmod`, `&` on two's complement `int`). -/
def wrap (g : Grid) (x : Int) : Int :=
  if g.pow2 then (and32 x (g.nt - 1) : Nat)
  else Int.tmod (Int.tmod x g.nt + g.nt) g.nt

/-- `PolarGrid::fastIndex` (and the body of `index` after wrapping) -/
def fastIndex (g : Grid) (i j : Nat) : Nat :=
  if i < g.nc then j + g.nt * i else g.ncirc + i - g.nc + g.len * j

/-- `PolarGrid::index(int, int)` with an unwrapped angular index -/
def index (g : Grid) (i : Nat) (ju : Int) : Nat := g.fastIndex i (g.wrap ju).toNat

/-- `PolarGrid::index(const MultiIndex&)`, the unoptimised reference -/
def refIndex (g : Grid) (i j : Nat) : Nat :=
  if i < g.nc then j + g.nt * i else g.ncirc + (i - g.nc + g.len * j)

/-- `PolarGrid::multiIndex(int, int&, int&)` -/
def multiIndex (g : Grid) (n : Nat) : Nat × Nat :=
  if n < g.ncirc then
    (n / g.nt, if g.pow2 then n &&& (g.nt - 1) else n % g.nt)
  else
    (g.nc + (n - g.ncirc) % g.len, (n - g.ncirc) / g.len)

/-- `PolarGrid::multiIndex(int)` via `std::div`, the unoptimised reference -/
def refMultiIndex (g : Grid) (n : Nat) : Nat × Nat :=
  if n < g.ncirc then (n / g.nt, n % g.nt)
  else (g.nc + (n - g.ncirc) % g.len, (n - g.ncirc) / g.len)

/-- `-1` encodes "no neighbour" as in the code -/
def idxOrNone (g : Grid) (i : Int) (j : Nat) : Int :=
  if i < 0 ∨ i ≥ g.nr then -1 else (g.refIndex i.toNat j : Nat)

def jm1 (g : Grid) (j : Nat) : Nat := if (j : Int) - 1 < 0 then j + g.nt - 1 else j - 1
def jp1 (g : Grid) (j : Nat) : Nat := if j + 1 ≥ g.nt then j + 1 - g.nt else j + 1

/-- `adjacentNeighborsOf`: (r-1, r+1, theta-1, theta+1) -/
def adjacent (g : Grid) (i j : Nat) : Int × Int × Int × Int :=
  (g.idxOrNone ((i : Int) - 1) j, g.idxOrNone ((i : Int) + 1) j,
   (g.refIndex i (g.jm1 j) : Nat), (g.refIndex i (g.jp1 j) : Nat))

/-- `diagonalNeighborsOf`: (r-1,θ-1), (r+1,θ-1), (r-1,θ+1), (r+1,θ+1) -/
def diagonal (g : Grid) (i j : Nat) : Int × Int × Int × Int :=
  (g.idxOrNone ((i : Int) - 1) (g.jm1 j), g.idxOrNone ((i : Int) + 1) (g.jm1 j),
   g.idxOrNone ((i : Int) - 1) (g.jp1 j), g.idxOrNone ((i : Int) + 1) (g.jp1 j))

/-- shape of the grid `coarseningGrid` builds (split chosen afterwards by the constructor) -/
def coarseNr (g : Grid) : Nat := (g.nr + 1) / 2
def coarseNt (g : Grid) : Nat := g.nt / 2

end Grid

/-! ## The circle/radial split (`initializeLineSplitting`) over an ordered scalar -/

namespace Split

/-- `std::lower_bound(radii, s) - radii.begin()` : number of leading radii `< s`
    (for a sorted array this is the first position whose radius is `≥ s`). -/
def lowerBound {α : Type} (lt : α → α → Bool) (radii : List α) (s : α) : Nat :=
  match radii with
  | [] => 0
  | r :: rs => if lt r s then 1 + lowerBound lt rs s else 0

/-- explicit splitting radius: number of smoother circles -/
def explicitNc {α : Type} (lt : α → α → Bool) (radii : List α) (s : α) : Nat :=
  match radii with
  | [] => 0
  | r0 :: _ => if lt s r0 then 0 else lowerBound lt radii s

/-- automatic split, `polargrid.cpp:196-216`.
    `crit i` is the test `q * radius_r > 1.0` for circle `i` (a floating-point predicate
    supplied by the caller); the loop runs `i = 2 … nr-3` and takes the first hit. -/
def autoLoop (crit : Nat → Bool) (nr : Nat) : Nat → Nat → Nat
  | _, 0 => 2
  | i, fuel + 1 => if i + 2 < nr then (if crit i then i else autoLoop crit nr (i + 1) fuel) else 2

def autoNc (crit : Nat → Bool) (nr : Nat) : Nat :=
  let nc := autoLoop crit nr 2 nr
  if nc < 3 ∧ nr > 5 then 3 else nc

end Split
