/-!
# Grid generation
mirrors `src/PolarGrid/polargrid.cpp:68-148` (`constructRadialDivisions`, `constructAngularDivisions`, `refineGrid`,
`divideVector`), `src/PolarGrid/anisotropic_division.cpp` (whole routine), `polargrid.cpp:403-440` (`checkParameters`, the
part about radii) and `src/GMGPolar/setup.cpp:209-249` (`chooseNumberOfLevels`).

Values are exact rationals; `std::set<double>` is a strictly increasing list; every array access carries its index, so
an out-of-bounds access (or another undefined operation such as `log2(0)` converted to `int`, `std::advance(it, -1)` at
`begin()`) is an explicit outcome `Out.ub`.  Angles are multiples of `2π/ntheta` and are represented by their index.
-/
namespace GridGen

inductive Out (α : Type)
  | ok (v : α)
  | throw (msg : String)     -- a C++ exception
  | ub (what : String)       -- undefined behaviour in the C++ (out-of-bounds access, …)
  deriving Repr

instance : Monad Out where
  pure := .ok
  bind x f := match x with | .ok v => f v | .throw m => .throw m | .ub w => .ub w

/-- checked array read -/
def rd (a : List Rat) (i : Int) (what : String) : Out Rat :=
  if 0 ≤ i ∧ i < a.length then .ok (a.getD i.toNat 0) else .ub s!"read {what}[{i}] of {a.length}"

/-- sorted, duplicate-free insertion (`std::set<double>::insert`) -/
def sins (x : Rat) : List Rat → List Rat
  | [] => [x]
  | y :: ys => if x < y then x :: y :: ys else if x = y then y :: ys else y :: sins x ys

/-- `floor(log2(m))` for `m ≥ 1` -/
def log2floor (m : Nat) : Nat := Nat.log2 m

def floorRat (q : Rat) : Int := q.floor
def ceilRat (q : Rat) : Int := q.ceil

structure AnisoIn where
  R0 : Rat
  R : Rat
  nrExp : Int
  refr : Rat
  aniso : Int

/-- lower clamp of the refinement window (`se = max(se, 0)`) — present after the `fix:` commit -/
def clampLow : Bool := true
/-- radii outside `[R0, R]` are rejected with an exception — present after the `fix:` commit -/
def rejectOutside : Bool := true

/-- one pass `k` of the refinement loop over the current `r_set_p1` (ascending), positions `i < rsize - 1` -/
def refinePass (half : Rat) (keep : Bool) (st et : Int) (p1 : List Rat) (rsize : Int) (rset : List Rat) :
    Out (List Rat × List Rat × Int) :=
  -- returns (r_set, r_set_p1_tmp, count)
  let n := (rsize - 1).toNat
  (List.range n).foldl (fun acc (i : Nat) => do
      let (rs, tmp, cnt) ← acc
      -- `*itr_p1` after `i` increments: undefined once the iterator has passed the last element
      if i < p1.length then
        let x := p1.getD i 0
        let rs := sins (x + half) rs
        if keep ∧ st ≤ (i : Int) ∧ (i : Int) < et then pure (rs, sins (x + half) (sins x tmp), cnt + 2)
        else pure (rs, tmp, cnt)
      else .ub s!"dereference of r_set_p1 iterator at position {i} of {p1.length}") (.ok (rset, [], 0))

def passes (ud : Rat) (aniso : Nat) (st et : Int) : Nat → Rat → List Rat → Int → List Rat → Out (List Rat)
  | 0, _, _, _, rset => .ok rset
  | fuel + 1, half, p1, count, rset => do
      let k := aniso - (fuel + 1)
      let (rs, tmp, cnt) ← refinePass half (decide (k + 1 < aniso)) st et p1 count rset
      passes ud aniso st et fuel (half / 2) tmp cnt rs

/-- `RadialAnisotropicDivision` -/
def anisoDivision (a : AnisoIn) : Out (List Rat) := do
  let p := (a.refr - a.R0) / (a.R - a.R0)
  if rejectOutside ∧ ¬ (0 ≤ p ∧ p ≤ 1) then .throw "refinement radius outside [R0, R]"
  else
  if a.aniso < 0 ∨ (2 : Int) ^ a.nrExp.toNat - (2 : Int) ^ a.aniso.toNat ≤ 0 ∨ a.nrExp < 0 then
    .throw "Please choose anisotropy factor a such that 2^fac_ani < 2^nr_exp."
  else
  let aniso := a.aniso.toNat
  let nEqui0 : Int := (2 : Int) ^ a.nrExp.toNat - (2 : Int) ^ aniso
  let nEqui : Int := if aniso % 2 = 1 then nEqui0 + 1 else nEqui0
  let ud := (a.R - a.R0) / nEqui
  let nr : Int := nEqui + 1
  let r2 : List Rat := (List.range (nr.toNat - 1)).map (fun (i : Nat) => a.R0 + ((i : Int) : Rat) * ud) ++ [a.R]
  -- position of the refinement centre, kept inside the array: `min(floor(nr * percentage), nr - 1)`
  let fl : Int := min (floorRat ((nr : Rat) * p)) (nr - 1)
  let nRef0 : Int := (2 : Int) ^ aniso
  -- "Added by Allan Kuhn to fix a memory error": shrink the window at the upper end
  let nRefO : Out Int :=
    if fl > nr - nRef0 / 2 then
      if nr - fl ≤ 0 then .ub "log2 of a non-positive number converted to int"
      else .ok ((2 : Int) ^ (log2floor (nr - fl).toNat + 1))
    else .ok nRef0
  let nRef ← nRefO
  let se0 : Int := fl - nRef / 2
  let se : Int := if clampLow ∧ se0 < 0 then 0 else se0
  let ee : Int := se + nRef
  let st : Int := ceilRat ((nRef : Rat) / 4 + 1) - 1
  let et : Int := floorRat (3 * ((nRef : Rat) / 4))
  -- r_set_p1 = { r_temp2[se + i] : i < n_elems_refined }
  let p1 ← (List.range nRef.toNat).foldl (fun acc (i : Nat) => do
      let s ← acc
      let v ← rd r2 (se + (i : Int)) "r_temp2"
      pure (sins v s)) (.ok [])
  let rset ← passes ud aniso st et aniso (ud / 2) p1 nRef []
  let nr2 : Int := nr + rset.length
  let shift : Int := min (nr2 % 8 - 1) rset.length
  if shift < 0 then .ub "std::advance(r_set.begin(), -1)"
  else
  let rset := rset.drop shift.toNat
  let rset ← (List.range nRef.toNat).foldl (fun acc (i : Nat) => do
      let s ← acc
      let v ← rd r2 (se + (i : Int)) "r_temp2"
      pure (sins v s)) (.ok rset)
  let nrOut : Int := nEqui - nRef + rset.length + 1
  if nrOut < 0 then .ub "resize to a negative length" else
  -- group all in r_temp: three index ranges, every write checked
  let wr (arr : List Rat) (i : Int) (v : Rat) : Out (List Rat) :=
    if 0 ≤ i ∧ i < arr.length then .ok (arr.set i.toNat v) else .ub s!"write r_temp[{i}] of {arr.length}"
  let out0 : List Rat := List.replicate nrOut.toNat 0
  let out1 ← (List.range se.toNat).foldl (fun acc (i : Nat) => do
      let o ← acc
      let v ← rd r2 (i : Int) "r_temp2"
      wr o (i : Int) v) (.ok out0)
  let out2 ← (List.range rset.length).foldl (fun acc (i : Nat) => do
      let o ← acc
      wr o (se + (i : Int)) (rset.getD i 0)) (.ok out1)
  (List.range (nEqui - ee + 1).toNat).foldl (fun acc (i : Nat) => do
      let o ← acc
      let v ← rd r2 (ee + (i : Int)) "r_temp2"
      wr o (se + (rset.length : Int) + (i : Int)) v) (.ok out2)

/-- `anisotropic_factor == 0` branch of `constructRadialDivisions` -/
def uniformTemp (R0 R : Rat) (nrExp : Int) : Out (List Rat) :=
  if nrExp < 1 then .ub "pow(2, nr_exp - 1) + 1 with nr_exp < 1: not enough nodes" else
  let nr : Nat := 2 ^ (nrExp.toNat - 1) + 1
  let ud := (R - R0) / (((nr - 1 : Nat) : Int) : Rat)
  .ok ((List.range (nr - 1)).map (fun (i : Nat) => R0 + ((i : Int) : Rat) * ud) ++ [R])

/-- "Refine division in the middle for extrapolation" -/
def midpointRefine (t : List Rat) : List Rat :=
  (List.range (2 * t.length - 1)).map fun i =>
    if i % 2 = 0 then t.getD (i / 2) 0 else (1 / 2 : Rat) * (t.getD ((i - 1) / 2) 0 + t.getD ((i + 1) / 2) 0)

/-- `divideVector(vec, divideBy2)` -/
def divideVector (v : List Rat) (d : Nat) : List Rat :=
  match v with
  | [] => []
  | _ =>
    let pw : Nat := 2 ^ d
    ((List.range (v.length - 1)).flatMap fun i =>
      (List.range pw).map fun (j : Nat) => v.getD i 0 + ((j : Int) : Rat) * (v.getD (i + 1) 0 - v.getD i 0) / ((pw : Int) : Rat)) ++ [v.getLastD 0]

structure GenIn where
  R0 : Rat
  Rmax : Rat
  nrExp : Int
  ntExp : Int
  refr : Rat
  aniso : Int
  div : Nat

/-- smallest `k` with `2^k ≥ n` (`ceil(log2(n))`) -/
def ceilLog2 (n : Nat) : Nat := if n ≤ 1 then 0 else Nat.log2 (n - 1) + 1

/-- the radii and the number of angular intervals the parametric constructor produces -/
def generate (g : GenIn) : Out (List Rat × Nat) := do
  let t ← if g.aniso = 0 then uniformTemp g.R0 g.Rmax g.nrExp
          else anisoDivision ⟨g.R0, g.Rmax, g.nrExp, g.refr, g.aniso⟩
  let radii0 := midpointRefine t
  let nt0 : Nat := if g.ntExp < 0 then 2 ^ ceilLog2 radii0.length else 2 ^ g.ntExp.toNat
  let radii := divideVector radii0 g.div
  let nt := nt0 * 2 ^ g.div
  -- checkParameters
  if radii.length < 2 then .throw "At least two radii are required."
  else if ¬ radii.all (fun r => decide (0 < r)) then .throw "All radii must be greater than zero."
  else if ¬ (radii.zip (radii.drop 1)).all (fun p => decide (p.1 < p.2)) then .throw "Radii must be strictly increasing."
  else if nt + 1 < 3 then .throw "At least two angles are required."
  else if nt % 2 = 1 then .throw "Each angle must have its opposite in the set"
  else pure (radii, nt)

/-- `chooseNumberOfLevels` -/
def radialMax : Nat → Nat → Nat
  | 0, _ => 1
  | fuel + 1, n => if (n + 1) / 2 ≥ 5 ∧ (n + 1) % 2 = 0 then 1 + radialMax fuel ((n + 1) / 2) else 1
def angularMax : Nat → Nat → Nat
  | 0, _ => 1
  | fuel + 1, n => if n / 2 ≥ 4 ∧ n % 2 = 0 ∧ (n / 2) % 2 = 0 then 1 + angularMax fuel (n / 2) else 1
def chooseLevels (nr nt : Nat) (maxLevels : Int) : Out Nat :=
  let l := min (radialMax nr nr) (angularMax nt nt)
  let l := if maxLevels > 0 then min maxLevels.toNat l else l
  if l < 2 then .throw "Number of possible levels is less than Multigrid minimum level" else .ok l

end GridGen
