#!/usr/bin/env python3
"""Orchestrator: `verif.py check <Cxx> --tier quick|thorough`, `verif.py setup`, `verif.py baseline`.

For one property a check does, in order (DESIGN.md 1.5):
  1 build /repo's working tree (hooks on) incrementally in /verif/.build/repo, build the harnesses it needs
  2 run the translators (where the property has generated Lean input)
  3 lake build the property's theorem module and the driver
  4 audit: no sorry/admit/native_decide/... in the Lean sources, `#print axioms` of every property theorem
  5 corpus replay + correspondence (harness | gmgdriver) + the property's implementation oracle
  6 known-finding probes
  7 write evidence/<id>.json; exit 0, or print VIOLATION lines and exit 1
"""
import argparse, fcntl, hashlib, importlib, json, os, re, shutil, subprocess, sys, time

ROOT = os.path.dirname(os.path.dirname(os.path.abspath(__file__)))
REPO = os.environ.get("VERIF_REPO", "/repo")
BUILD = os.path.join(ROOT, ".build")
LEAN = os.path.join(ROOT, "lean")
GUARD = "GMGPOLAR_VERIF"
ALLOWED_AXIOMS = {"propext", "Classical.choice", "Quot.sound"}
FORBIDDEN = re.compile(r"\b(sorry|admit|native_decide|bv_decide|implemented_by|unsafe)\b|maxHeartbeats 0|^\s*axiom\s", re.M)

sys.path.insert(0, os.path.join(ROOT, "tools"))


def log(*a):
    print(*a, file=sys.stderr, flush=True)


def run(cmd, **kw):
    kw.setdefault("stdout", subprocess.PIPE)
    kw.setdefault("stderr", subprocess.STDOUT)
    kw.setdefault("text", True)
    return subprocess.run(cmd, **kw)


class Lock:
    def __init__(self, name):
        os.makedirs(BUILD, exist_ok=True)
        self.path = os.path.join(BUILD, name + ".lock")

    def __enter__(self):
        self.f = open(self.path, "w")
        fcntl.flock(self.f, fcntl.LOCK_EX)
        return self

    def __exit__(self, *a):
        fcntl.flock(self.f, fcntl.LOCK_UN)
        self.f.close()


class BrokenObligation(Exception):
    """A proof, translator or build step that no longer checks (not yet a violation, see DESIGN 1.6)."""

    def __init__(self, what, detail=""):
        super().__init__(what)
        self.what, self.detail = what, detail


class Ctx:
    def __init__(self, prop, tier, seed):
        self.prop, self.tier, self.seed = prop, tier, seed
        self.t0 = time.time()
        self.broken = []        # list of (what, detail): proof/translator/correspondence obligations that failed
        self.failing = []       # concrete failing inputs found: dicts
        self.known = []         # known findings reported
        self.cov = {"evaluations": 0, "samples": [], "input_distribution": {}}
        self.signatures = set()
        self.obligations = []   # (name, ok, axioms)
        self.assumptions = []

    # ---------------------------------------------------------------- builds
    def build_repo(self, variant="default"):
        """Incremental out-of-source build of /repo's current working tree with the hook guard on."""
        variants = {
            "default": dict(cxx="g++", flags=f"-D{GUARD}", type="Release"),
            "asan": dict(cxx="g++", flags=f"-D{GUARD} -fsanitize=address,undefined -fno-sanitize-recover=all -g -O1", type="Debug"),
            "asan-ndebug": dict(cxx="g++", flags=f"-D{GUARD} -DNDEBUG -fsanitize=address,undefined -fno-sanitize-recover=all -g -O1", type="Debug"),
            "tsan": dict(cxx="clang++-14", flags=f"-D{GUARD} -fsanitize=thread -g -O1", type="Release"),
        }
        v = variants[variant]
        bdir = os.path.join(BUILD, "repo-" + variant)
        with Lock("repo-" + variant):
            os.makedirs(bdir, exist_ok=True)
            r = run(["cmake", "-G", "Ninja", "-S", REPO, "-B", bdir, "-DGMGPOLAR_BUILD_TESTS=OFF",
                     f"-DCMAKE_BUILD_TYPE={v['type']}", f"-DCMAKE_CXX_COMPILER={v['cxx']}",
                     f"-DCMAKE_CXX_FLAGS={v['flags']}"])
            if r.returncode != 0:
                raise BrokenObligation("repo-configure", r.stdout[-3000:])
            r = run(["ninja", "-C", bdir, "GMGPolarLib"])
            if r.returncode != 0:
                raise BrokenObligation("repo-build", r.stdout[-3000:])
        return bdir

    def build_harness(self, name, variant="default", libs=("GMGPolarLib", "InputFunctions", "PolarGrid"), extra=(), out_name=None):
        bdir = self.build_repo(variant)
        out_dir = os.path.join(BUILD, "harness-" + variant)
        os.makedirs(out_dir, exist_ok=True)
        out = os.path.join(out_dir, out_name or name)
        src = os.path.join(ROOT, "harness", name + ".cpp")
        cxx = {"tsan": "clang++-14"}.get(variant, "g++")
        flags = {"default": ["-O1"], "asan": ["-O1", "-g", "-fsanitize=address,undefined", "-fno-sanitize-recover=all"],
                 "asan-ndebug": ["-O1", "-g", "-DNDEBUG", "-fsanitize=address,undefined", "-fno-sanitize-recover=all"],
                 "tsan": ["-O1", "-g", "-fsanitize=thread"]}[variant]
        cmd = [cxx, "-std=c++20", "-fopenmp", f"-D{GUARD}", f"-I{REPO}/include", f"-I{REPO}/src", f"-I{ROOT}/harness",
               *flags, *extra, src] + [os.path.join(bdir, f"lib{l}.a") for l in libs] + ["-o", out + ".tmp%d" % os.getpid()]
        r = run(cmd)
        if r.returncode != 0:
            raise BrokenObligation("harness-build:" + name, r.stdout[-3000:])
        os.replace(out + ".tmp%d" % os.getpid(), out)
        return out

    def lake_build(self, targets):
        with Lock("lake"):
            r = run(["lake", "build", *targets], cwd=LEAN)
        return r.returncode == 0, r.stdout

    def driver(self):
        return os.path.join(LEAN, ".lake", "build", "bin", "gmgdriver")

    # ---------------------------------------------------------------- proofs
    def prove(self, module=None, extra_modules=()):
        """Build the property's theorem module (+driver), audit sources and axioms.  Records obligations."""
        module = module or f"GMGProofs.Props.{self.prop}"
        ok, out = self.lake_build([module, *extra_modules, "gmgdriver"])
        if not ok:
            self.broken.append(("lake build " + module, out[-4000:]))
        # source audit
        bad = []
        for d in ("GMGModel", "GMGProofs", "GMGDriver", "Generated"):
            for dp, _, fs in os.walk(os.path.join(LEAN, d)):
                for f in fs:
                    if f.endswith(".lean"):
                        txt = open(os.path.join(dp, f)).read()
                        code = re.sub(r"/-.*?-/", "", txt, flags=re.S)
                        code = re.sub(r"--.*", "", code)
                        for m in FORBIDDEN.finditer(code):
                            bad.append(f"{os.path.relpath(os.path.join(dp, f), LEAN)}: {m.group(0).strip()}")
        if bad:
            self.broken.append(("source-audit", "; ".join(bad[:20])))
        # axioms audit of every theorem in the property file
        thms = []
        for mod in [module, *[m for m in extra_modules if ".Props." in m]]:
            thms += theorem_names(os.path.join(LEAN, *mod.split(".")) + ".lean")
        if not ok:
            for t in thms:
                self.obligations.append((t, False, ["<module does not build>"]))
            return
        audit = os.path.join(BUILD, f"audit-{self.prop}-{os.getpid()}.lean")
        with open(audit, "w") as f:
            f.write("".join(f"import {m}\n" for m in [module, *extra_modules]) + "".join(f"#print axioms {t}\n" for t in thms))
        r = run(["lake", "env", "lean", audit], cwd=LEAN)
        os.unlink(audit)
        ax = parse_axioms(r.stdout)
        for t in thms:
            a = ax.get(t)
            good = a is not None and set(a) <= ALLOWED_AXIOMS
            self.obligations.append((t, good, a if a is not None else ["<not found>"]))
            if not good:
                self.broken.append((f"axioms of {t}", str(a)))
        if self.tier == "thorough":
            r = run(["lake", "env", "leanchecker", module], cwd=LEAN)
            okc = r.returncode == 0
            self.cov["leanchecker"] = "ok" if okc else r.stdout[-500:]
            if not okc:
                self.broken.append(("leanchecker " + module, r.stdout[-2000:]))

    # ---------------------------------------------------------------- correspondence
    def pipe(self, harness_cmd, kind, env=None, label=None, keep_lines=None, timeout=3600):
        """harness | gmgdriver <kind>.  Returns parsed SUMMARY dict.  DIFF lines -> broken correspondence,
        ORACLE lines -> concrete failing inputs."""
        e = dict(os.environ)
        e["VERIF_SEED"] = str(self.seed)
        e.setdefault("OMP_NUM_THREADS", "4")
        e.setdefault("OMP_WAIT_POLICY", "passive")   # idle OpenMP threads sleep instead of spinning: same results, usable on a loaded machine
        if env:
            e.update(env)
        label = label or kind
        t = time.time()
        hp = subprocess.Popen(harness_cmd, stdout=subprocess.PIPE, stderr=subprocess.PIPE, env=e)
        dp = subprocess.Popen([self.driver(), *kind.split()], stdin=hp.stdout, stdout=subprocess.PIPE, text=True)
        hp.stdout.close()
        out, _ = dp.communicate(timeout=timeout)
        herr = hp.stderr.read().decode(errors="replace")
        hrc = hp.wait()
        summary = {}
        diffs, oracle, known = [], [], []
        for line in out.splitlines():
            if line.startswith("SUMMARY"):
                for tok in line.split()[1:]:
                    if "=" in tok:
                        k, v = tok.split("=", 1)
                        summary[k] = int(v) if re.fullmatch(r"-?\d+", v) else v
            elif line.startswith("DIFF") or line.startswith("REJECT"):
                diffs.append(line)
            elif line.startswith("ORACLE"):
                oracle.append(line)
            elif line.startswith("KNOWN"):
                known.append(line)
            elif line.startswith("SAMPLE"):
                if len(self.cov["samples"]) < 6:
                    self.cov["samples"].append(line[7:])
            elif line.startswith("SIG"):
                self.signatures.add(line[4:])
        if hrc != 0:
            # the harness died (assertion, sanitizer, signal): its last record is truncated, so what the driver derived from the
            # tail of the stream is not evidence; the death itself is the broken obligation (with the stderr as detail)
            self.broken.append((f"harness {label} exited {hrc}", herr[-2000:] + "\n[driver lines discarded: " + " | ".join(l[:160] for l in (diffs + oracle)[-3:]) + "]"))
            diffs, oracle = [], []
            # the death of the real code is itself a failing input: name the record on which it died (skipped when the caller runs its
            # own probe for this stage, and for probes themselves)
            if not label.endswith("probe") and not getattr(self, "_in_probe", False) and harness_cmd and harness_cmd[0] != "true":
                self._in_probe = True
                try:
                    self.crash_probe(harness_cmd, label + "-crash-probe", start_re=r"^(H|LV|PAIR|CON|T|L|G|GEN|TUP|OPT|VECBEGIN|FILECASE|CASE|case)\b", env=env)
                except Exception:
                    pass
                finally:
                    self._in_probe = False
        if dp.returncode not in (0, 1) or not summary:
            self.broken.append((f"driver {label} exited {dp.returncode}", out[-2000:]))
        if diffs:
            self.broken.append((f"correspondence {label}: {len(diffs)} disagreement(s) model vs implementation", "\n".join(diffs[:25])))
        foreign = 0
        for o in oracle:
            # an ORACLE line names the property whose statement fails on the implementation; other properties' lines
            # (pipelines are shared between checks) are counted but belong to that property's own check
            tag = o.split()[1] if len(o.split()) > 1 else ""
            if tag == self.prop or tag in getattr(self, "also_props", ()):
                self.failing.append({"stage": label, "what": o, "cmd": " ".join(harness_cmd), "seed": self.seed})
            else:
                foreign += 1
        if foreign:
            self.cov.setdefault("oracle_lines_of_other_properties", {})[label] = foreign
        self.cov["evaluations"] += int(summary.get("checks", 0))
        self.cov["input_distribution"][label] = summary
        self.cov.setdefault("stage_wall_s", {})[label] = round(time.time() - t, 2)
        return summary, diffs, oracle, known

    def schedule_conflicts(self, region_substrings, bounds=("10", "20"), label="schedule-of-own-regions"):
        """The property depends on the race freedom of some parallel regions (e.g. C04 on the matrix assembly 'for any thread count used
        for assembly'): regenerate the schedule model from the C++ (tools/omp_extract.py), search it for a concrete conflict and take over
        the conflicts of the regions named (the proofs about the schedule stay with C11)."""
        r = run(["python3", os.path.join(ROOT, "tools", "omp_extract.py")])
        if r.returncode != 0:
            self.broken.append(("translator omp_extract.py: the parallel regions no longer have the extractable form", r.stdout[-2000:]))
            return
        ok, out = self.lake_build(["gmgdriver"])
        if not ok:
            self.broken.append(("lake build gmgdriver (regenerated schedule)", out[-3000:]))
            return
        _, _, oracle, _ = self.pipe(["true"], f"sched {bounds[0]} {bounds[1]}", label=label)
        for o in oracle:
            if any(sub in o for sub in region_substrings):
                self.failing.append({"stage": label, "seed": self.seed, "cmd": f"gmgdriver sched {bounds[0]} {bounds[1]}",
                                     "what": f"ORACLE {self.prop} two iterations of one barrier interval of a parallel region this property depends on conflict "
                                             f"(the result depends on the schedule): " + o})

    def crash_probe(self, harness_cmd, label, start_re=r"^(H|LV|CASE|case)\b", env=None, max_lines=40):
        """After a harness death: run the harness alone, unbuffered, and report the records of the last case it began as the
        failing input (the operation sequence on which the real code crashed)."""
        e = dict(os.environ)
        e["VERIF_SEED"] = str(self.seed)
        e.setdefault("OMP_NUM_THREADS", "4")
        e.setdefault("OMP_WAIT_POLICY", "passive")   # idle OpenMP threads sleep instead of spinning: same results, usable on a loaded machine
        e["VERIF_UNBUFFERED"] = "1"
        if env:
            e.update(env)
        r = subprocess.run(harness_cmd, stdout=subprocess.PIPE, stderr=subprocess.PIPE, env=e)
        if r.returncode == 0:
            return False
        lines = r.stdout.decode(errors="replace").splitlines()
        start = 0
        for i, l in enumerate(lines):
            if re.match(start_re, l):
                start = i
        body = [l[:300] for l in lines[start:]]
        seq = body if len(body) <= max_lines else body[:3] + ["…"] + body[-(max_lines - 4):]
        self.failing.append({"stage": label, "seed": self.seed, "cmd": "VERIF_UNBUFFERED=1 " + " ".join(harness_cmd),
                             "what": f"ORACLE {self.prop} the real code died (exit status {r.returncode}) while executing the last record of this "
                                     f"sequence: " + " ; ".join(seq),
                             "stderr": "\n".join([l for l in r.stderr.decode(errors="replace").splitlines() if ("ERROR" in l or "SUMMARY" in l or "#0 " in l or "#1 " in l or "Assertion" in l or "what()" in l)][:8])})
        return True

    # ---------------------------------------------------------------- reporting
    def finish(self, level="proof", rule="", technique_note=""):
        known_cfg = load_known()
        viol = 0
        os.makedirs(os.path.join(ROOT, "replays"), exist_ok=True)
        lines = []
        # concrete failing inputs: violation unless they match an open known finding
        fresh = []
        for f in self.failing:
            kf = match_known(known_cfg, self.prop, f)
            if kf:
                if kf["id"] not in [k["id"] for k in self.known]:
                    self.known.append(kf)
            else:
                fresh.append(f)
        for kf in self.known:
            lines.append(f"KNOWN-FINDING: property={self.prop} {kf['id']} {kf['what']}")
        if fresh:
            h = hashlib.sha1(json.dumps(fresh, sort_keys=True).encode()).hexdigest()[:10]
            path = os.path.join(ROOT, "replays", f"{self.prop}-{h}.json")
            json.dump({"property": self.prop, "seed": self.seed, "tier": self.tier, "failing_inputs": fresh,
                       "broken_obligations": [b[0] for b in self.broken],
                       "rerun": f"VERIF_SEED={self.seed} python3 tools/verif.py check {self.prop} --tier {self.tier}"},
                      open(path, "w"), indent=1)
            lines.append(f"VIOLATION property={self.prop} replay={path}")
            viol += len(fresh)
        elif self.broken:
            h = hashlib.sha1(json.dumps(self.broken, sort_keys=True).encode()).hexdigest()[:10]
            path = os.path.join(ROOT, "replays", f"{self.prop}-{h}.json")
            json.dump({"property": self.prop, "seed": self.seed, "tier": self.tier,
                       "no_longer_checks": [{"obligation": b[0], "detail": b[1]} for b in self.broken],
                       "failing_inputs": [],
                       "note": "a proof obligation, translator or correspondence no longer checks; the search of model and "
                               "implementation found no concrete failing input",
                       "rerun": f"VERIF_SEED={self.seed} python3 tools/verif.py check {self.prop} --tier {self.tier}"},
                      open(path, "w"), indent=1)
            lines.append(f"VIOLATION property={self.prop} replay={path} no-failing-input-found")
            viol += 1
        nob = len(self.obligations)
        ndis = sum(1 for o in self.obligations if o[1])
        cov = dict(self.cov)
        cov.update({
            "obligations": nob, "discharged": ndis,
            "checker_cmd": f"cd lean && lake build GMGProofs.Props.{self.prop} && lake env lean <#print axioms of every theorem>"
                           + (" && lake env leanchecker GMGProofs.Props.%s" % self.prop if self.tier == "thorough" else ""),
            "trusted_base": ["Lean 4.33.0 kernel", "axioms: " + ", ".join(sorted({a for o in self.obligations for a in (o[2] or [])})),
                             "hand-written model GMGModel/* tied to /repo by the correspondence run of this check",
                             "harness + gmgdriver comparison (tools/verif.py, harness/*.cpp, lean/GMGDriver/*)"],
            "theorems": [o[0] for o in self.obligations],
            "distinct_nontrivial": len(self.signatures) if self.signatures else cov.get("distinct_nontrivial", 0),
            "rule": rule,
            "known_findings_reported": [k["id"] for k in self.known],
            "broken_obligations": [b[0] for b in self.broken],
        })
        if not cov["samples"]:
            cov["samples"] = ["<none>"]
        ev = {"property_id": self.prop, "tier": self.tier, "seed": self.seed, "level": level, "coverage": cov,
              "assumptions": self.assumptions, "wall_s": round(time.time() - self.t0, 2), "violations": viol}
        os.makedirs(os.path.join(ROOT, "evidence"), exist_ok=True)
        json.dump(ev, open(os.path.join(ROOT, "evidence", f"{self.prop}.json"), "w"), indent=1)
        for l in lines:
            print(l)
        if viol == 0:
            print(f"OK property={self.prop} tier={self.tier} obligations={ndis}/{nob} evaluations={cov['evaluations']} "
                  f"signatures={cov['distinct_nontrivial']} wall={ev['wall_s']}s")
        for b in self.broken:
            log("BROKEN:", b[0], "\n", b[1][:1500])
        return 1 if viol else 0


def theorem_names(path):
    txt = open(path).read()
    code = re.sub(r"/-.*?-/", "", txt, flags=re.S)
    ns = []
    names = []
    for line in code.splitlines():
        m = re.match(r"\s*namespace\s+(\S+)", line)
        if m:
            ns.append(m.group(1)); continue
        m = re.match(r"\s*end\s+(\S+)", line)
        if m and ns and ns[-1] == m.group(1):
            ns.pop(); continue
        m = re.match(r"\s*(?:private\s+|protected\s+)?theorem\s+(\S+)", line)
        if m:
            names.append(".".join(ns + [m.group(1)]))
    return names


def parse_axioms(out):
    """`#print axioms` output -> {theorem: [axioms]}.  Names are matched on one line only (a name may end in primes and a
    `does not depend` line may directly precede a `depends on` line); the axiom list may wrap over several lines."""
    res = {}
    for m in re.finditer(r"^'([^\n]+?)' depends on axioms: \[([^\]]*)\]", out, flags=re.M):
        res[m.group(1)] = [a.strip() for a in m.group(2).replace("\n", " ").split(",") if a.strip()]
    for m in re.finditer(r"^'([^\n]+?)' does not depend on any axioms", out, flags=re.M):
        res[m.group(1)] = []
    return res


def load_known():
    p = os.path.join(ROOT, "known_findings.json")
    return json.load(open(p)) if os.path.exists(p) else []


def match_known(known, prop, failing):
    """A failing input matches an open finding when the finding's `match` regex hits its description."""
    for k in known:
        if k.get("property") == prop and k.get("status") == "open":
            if re.search(k["match"], failing.get("what", "")):
                return k
    return None


def cmd_setup(_):
    os.makedirs(BUILD, exist_ok=True)
    r = subprocess.run(["lake", "build"], cwd=LEAN)
    if r.returncode != 0:
        sys.exit(r.returncode)
    c = Ctx("setup", "quick", 1)
    try:
        c.build_repo()
    except BrokenObligation as e:
        log(e.what, e.detail)
        sys.exit(1)
    print("setup ok")


def cmd_check(a):
    prop = a.prop
    tier = a.tier or os.environ.get("VERIF_TIER", "quick")
    seed = int(os.environ.get("VERIF_SEED", "1"))
    mod = importlib.import_module("props." + prop.lower())
    ctx = Ctx(prop, tier, seed)
    try:
        mod.run(ctx)
    except BrokenObligation as e:
        ctx.broken.append((e.what, e.detail))
    rc = ctx.finish(level=getattr(mod, "LEVEL", "proof"), rule=getattr(mod, "RULE", ""))
    sys.exit(rc)


def cmd_replay(a):
    """Re-run the check that produced a replay file with the recorded seed and tier (every random choice of a check derives
    from VERIF_SEED, so the run is the same run) and say whether the recorded failing inputs / broken obligations recur."""
    rp = json.load(open(a.path))
    env = dict(os.environ, VERIF_SEED=str(rp.get("seed", 1)))
    r = subprocess.run([sys.executable, os.path.abspath(__file__), "check", rp["property"], "--tier", rp.get("tier", "quick")],
                       env=env, stdout=subprocess.PIPE, stderr=subprocess.STDOUT, text=True)
    sys.stdout.write(r.stdout)
    again = None
    m = re.search(r"VIOLATION property=\S+ replay=(\S+)", r.stdout)
    if m and os.path.exists(m.group(1)):
        again = json.load(open(m.group(1)))
    want = {f.get("what") for f in rp.get("failing_inputs", [])} | {b.get("obligation") for b in rp.get("no_longer_checks", [])}
    got = set()
    if again:
        got = {f.get("what") for f in again.get("failing_inputs", [])} | {b.get("obligation") for b in again.get("no_longer_checks", [])}
    print(f"REPLAY property={rp['property']} recorded={len(want)} reproduced={len(want & got)} new={len(got - want)}")
    sys.exit(1 if got else 0)


def main():
    ap = argparse.ArgumentParser()
    sub = ap.add_subparsers(dest="cmd", required=True)
    sub.add_parser("setup").set_defaults(fn=cmd_setup)
    c = sub.add_parser("check")
    c.add_argument("prop")
    c.add_argument("--tier", choices=["quick", "thorough"])
    c.set_defaults(fn=cmd_check)
    c = sub.add_parser("replay")
    c.add_argument("path")
    c.set_defaults(fn=cmd_replay)
    a = ap.parse_args()
    a.fn(a)


if __name__ == "__main__":
    main()
