#!/usr/bin/env python3
"""Run registered checks against a kept seeded change:  seed_run_checks.py <seed-id> [--tier quick|thorough] [props…]
   git -C /repo apply seeded/<id>/patch.diff ; run the checks ; git -C /repo checkout -- .   (never committed)
   The evidence files of the clean tree are saved and restored, the outcome goes to seeded/<id>/meta.json (`checks`)."""
import os, sys, json, shutil, subprocess, time, argparse, re

ROOT = os.path.dirname(os.path.dirname(os.path.abspath(__file__)))


def main():
    ap = argparse.ArgumentParser()
    ap.add_argument("sid")
    ap.add_argument("props", nargs="*")
    ap.add_argument("--tier", default="quick")
    a = ap.parse_args()
    d = os.path.join(ROOT, "seeded", a.sid)
    mp = os.path.join(d, "meta.json")
    meta = json.load(open(mp)) if os.path.exists(mp) else {}
    props = a.props or [meta.get("property", a.sid.split("-")[0])]
    st = subprocess.run("git -C /repo status --porcelain --untracked-files=no", shell=True, capture_output=True, text=True).stdout.strip()
    assert not st, "/repo has uncommitted changes:\n" + st
    r = subprocess.run(f"git -C /repo apply {d}/patch.diff", shell=True, capture_output=True, text=True)
    assert r.returncode == 0, r.stderr
    out_all = {}
    try:
        for p in props:
            ev = os.path.join(ROOT, "evidence", p + ".json")
            bak = ev + ".clean"
            if os.path.exists(ev):
                shutil.copy(ev, bak)
            t0 = time.time()
            r = subprocess.run(f"python3 tools/verif.py check {p} --tier {a.tier}", shell=True, cwd=ROOT, stdout=subprocess.PIPE, stderr=subprocess.STDOUT, text=True)
            lines = [l for l in r.stdout.splitlines() if l.startswith(("VIOLATION", "OK ", "BROKEN", "DIFF", "ORACLE"))]
            vio = [l for l in lines if l.startswith("VIOLATION")]
            replay = None
            what = None
            if vio:
                m = re.search(r"replay=(\S+)", vio[0])
                if m and os.path.exists(m.group(1)):
                    rp = json.load(open(m.group(1)))
                    what = json.dumps(rp)[:700]
            out_all[f"{p}:{a.tier}"] = dict(exit=r.returncode, detected=r.returncode != 0 and bool(vio),
                                           concrete_input=bool(vio) and "no-failing-input-found" not in vio[0],
                                           lines=lines[:6], replay_excerpt=what, wall_s=round(time.time() - t0, 1))
            print(p, a.tier, "exit", r.returncode, *(lines[:4]), sep="\n  ")
            if os.path.exists(bak):
                shutil.move(bak, ev)
    finally:
        subprocess.run("git -C /repo checkout -- .", shell=True)
        # the translators rewrote lean/Generated/* from the patched tree: regenerate from the clean tree
        for t in ("omp_extract.py", "omp_owner.py", "cxx_expr.py", "testcase_extract.py"):
            subprocess.run(["python3", os.path.join(ROOT, "tools", t)], stdout=subprocess.DEVNULL, stderr=subprocess.DEVNULL)
    meta.setdefault("checks", {}).update(out_all)
    json.dump(meta, open(mp, "w"), indent=1)


if __name__ == "__main__":
    main()
