#!/usr/bin/env python3
"""Writes MANIFEST.json from the table below (kept in one place so the file is always schema-valid)."""
import json, os
ROOT = os.path.dirname(os.path.dirname(os.path.abspath(__file__)))

CLAIMED = {
    "C17": dict(
        category="proof",
        text="Lean 4 theorems over the transcribed index arithmetic (all grid shapes, no size bound): index/multiIndex mutually "
             "inverse and onto 0..N-1, fast = reference, wrap = residue on both code paths (two's-complement AND and double "
             "modulo), periodicity, split partition, lower_bound and automatic split bounds, neighbour tables, coarsening "
             "chain.  The model is tied to /repo by running real PolarGrid objects against the model's executable "
             "definitions on ~4e5 queries per run.",
        design_ref="DESIGN.md section 4, C17",
        note="Lean kernel; axioms propext/Classical.choice/Quot.sound at most; hand-written model GMGModel/Grid.lean; "
             "correspondence harness h_grid.cpp + gmgdriver; nr*ntheta < 2^31 assumed as in the code.",
        technique="Lean 4 proof (omega, Nat/Int div-mod lemmas) over a hand model + differential correspondence with PolarGrid"),
    "C14": dict(
        category="proof",
        text="Lean 4 theorems for every dimension n and every (ordered) field: the code's three-pass in-place LDL^T solve equals the "
             "recursive elimination and solves T x = b whenever no pivot vanishes; every SPD (in particular every strictly diagonally "
             "dominant) tridiagonal matrix has positive pivots; the cyclic Sherman-Morrison solve with the code's gamma = -a0 solves "
             "the cyclic system for every SPD cyclic matrix including n = 2, 3 (denominator positivity and SPD of the modified "
             "matrix proved); a repeated solve re-uses the stored factors and returns the identical result for every scalar type "
             "(hence for double).  Tie: real SymmetricTridiagonalSolver<double> against the same Lean definitions run in IEEE double "
             "(bit-identical on the clean tree) and in exact rationals, plus a backward-error oracle on the implementation.",
        design_ref="DESIGN.md section 4, C14",
        note="Lean kernel; axioms propext/Classical.choice/Quot.sound; hand model GMGModel/Tridiag.lean; floating-point backward "
             "stability is measured (<= 2^-34 componentwise), not proved.",
        technique="Lean 4 proof (induction over the Schur complement, Sherman-Morrison identity, quadratic forms) + differential correspondence"),
    "C15": dict(
        category="proof",
        text="Lean 4 theorems about a field-by-field transcription of the hand-written copy/move members of Vector, SparseMatrixCOO, "
             "SparseMatrixCSR, DiagonalSolver and SymmetricTridiagonalSolver over a heap of identified buffers, for every scalar type: "
             "copy construction and copy assignment (any target size, including empty/moved-from source or target) never read or write "
             "out of bounds, yield an observationally equal object with fresh, disjoint storage; moves transfer the state and leave the "
             "documented empty object; well-formedness and absence of sharing are invariants of every operation sequence (induction); a "
             "tridiagonal solver copied after it has factorised solves like its source.  Tie: 2500 random histories per run on the real "
             "classes, every observable compared after every step, plus model-free oracles.",
        design_ref="DESIGN.md section 4, C15",
        note="Lean kernel; axioms propext/Classical.choice/Quot.sound; hand model GMGModel/Objects.lean; SparseLUSolver (std::vector members) "
             "is tied by correspondence only; defects F1, F11a, F11b found here were repaired by fix: commits.",
        technique="Lean 4 proof (invariant by induction over operation sequences, per-class unfolding) + differential histories on the real classes"),
    "C16": dict(
        category="proof",
        text="Lean 4 theorems, any field, any dimension: the map-level row-by-row elimination of SparseLUSolver refines the dense "
             "Doolittle recurrence; L*U = A entrywise with L unit lower and U upper triangular whenever no pivot vanishes; forward and "
             "backward substitution are correct, so solve returns x with A x = b; the exit branch fires exactly when a pivot passes the "
             "`tiny` test; the dense meaning of a row is invariant under permutation of its stored entries and insertion of stored "
             "zeros; strictly diagonally dominant matrices have non-vanishing pivots.  Tie: real SparseMatrixCSR/SparseLUSolver on "
             "700 random matrices per run vs the exact rational model, backward-error oracle.",
        design_ref="DESIGN.md section 4, C16",
        note="Lean kernel; axioms propext/Classical.choice/Quot.sound; std::unordered_map modelled as key-unique association list; the "
             "absolute 1e-12 pivot test + std::exit is known finding F7 (open).",
        technique="Lean 4 proof (row invariant of Doolittle elimination, finite-map refinement) + differential correspondence in exact rationals"),
}

PENDING_REASON = "not claimed yet: model and theorems for this property are still being built (see DESIGN.md section 7)"

def main():
    props = [json.loads(l)["id"] for l in open(os.path.join(ROOT, "properties.jsonl"))]
    checks = []
    for pid in props:
        if pid not in CLAIMED:
            continue
        c = CLAIMED[pid]
        checks.append({
            "property_id": pid,
            "quick_cmd": f"python3 tools/verif.py check {pid} --tier quick",
            "thorough_cmd": f"python3 tools/verif.py check {pid} --tier thorough",
            "evidence_file": f"/verif/evidence/{pid}.json",
            "replay_cmd_template": f"python3 tools/verif.py replay {{path}}",
            "engine": "lean4-proof+correspondence",
            "level_claimed": {"category": c["category"], "text": c["text"], "design_ref": c["design_ref"]},
            "level_note": c["note"],
            "technique": c["technique"],
        })
    m = {
        "version": 1,
        "setup_cmd": "python3 tools/verif.py setup",
        "hooks": {
            "guard": "GMGPOLAR_VERIF",
            "enable": "cmake -DCMAKE_CXX_FLAGS=-DGMGPOLAR_VERIF (tools/verif.py builds /repo's working tree into /verif/.build/repo-* with the guard on)",
            "baseline_off_cmd": "cmake --build /repo/_build && ctest --test-dir /repo/_build -j8 --timeout 900",
            "source_commits": json.load(open(os.path.join(ROOT, "tools", "hook_commits.json"))) if os.path.exists(os.path.join(ROOT, "tools", "hook_commits.json")) else [],
            "add_only": True,
        },
        "engines": [{
            "name": "lean4-proof+correspondence",
            "path": "/verif/lean (GMGModel, GMGProofs, gmgdriver), /verif/harness, /verif/tools/verif.py",
            "serves_properties": [c["property_id"] for c in checks],
            "kind_free_text": "machine-checked Lean 4 theorems about a hand-written executable model; model tied to /repo on "
                              "every run by a differential correspondence check (C++ harness against the real classes, "
                              "doubles transported as hex bits, comparison in exact rational arithmetic inside the Lean driver) "
                              "and, for textual facts, by translators that regenerate Lean input from the source",
        }],
        "checks": checks,
        "notes": "See DESIGN.md. Known findings live in known_findings.json.",
        "not_applicable": [{"property_id": p, "reason": PENDING_REASON} for p in props if p not in CLAIMED],
    }
    json.dump(m, open(os.path.join(ROOT, "MANIFEST.json"), "w"), indent=1)
    print("MANIFEST.json:", len(checks), "checks,", len(m["not_applicable"]), "not_applicable")

if __name__ == "__main__":
    main()
