#!/usr/bin/env python3
"""Writes MANIFEST.json from the table below (kept in one place so the file is always schema-valid)."""
import json, os
ROOT = os.path.dirname(os.path.dirname(os.path.abspath(__file__)))

CLAIMED = {
    "C17": dict(
        category="proof",
        text="Lean 4 theorems over the transcribed index arithmetic (all grid shapes, no size bound): index/multiIndex mutually "
             "inverse and onto 0..N-1, fast = reference, wrap = residue on both code paths (two's-complement AND and double "
             "modulo), periodicity, split partition, lower_bound and automatic split bounds, neighbour tables, coarsening "
             "chain.  The model is tied to /repo by running real PolarGrid objects against the model's executable "
             "definitions on ~4e5 queries per run.",
        design_ref="DESIGN.md section 4, C17",
        note="Lean kernel; axioms propext/Classical.choice/Quot.sound at most; hand-written model GMGModel/Grid.lean; "
             "correspondence harness h_grid.cpp + gmgdriver; nr*ntheta < 2^31 assumed as in the code.",
        technique="Lean 4 proof (omega, Nat/Int div-mod lemmas) over a hand model + differential correspondence with PolarGrid"),
    "C14": dict(
        category="proof",
        text="Lean 4 theorems for every dimension n and every (ordered) field: the code's three-pass in-place LDL^T solve equals the "
             "recursive elimination and solves T x = b whenever no pivot vanishes; every SPD (in particular every strictly diagonally "
             "dominant) tridiagonal matrix has positive pivots; the cyclic Sherman-Morrison solve with the code's gamma = -a0 solves "
             "the cyclic system for every SPD cyclic matrix including n = 2, 3 (denominator positivity and SPD of the modified "
             "matrix proved); a repeated solve re-uses the stored factors and returns the identical result for every scalar type "
             "(hence for double).  Tie: real SymmetricTridiagonalSolver<double> against the same Lean definitions run in IEEE double "
             "(bit-identical on the clean tree) and in exact rationals, plus a backward-error oracle on the implementation.",
        design_ref="DESIGN.md section 4, C14",
        note="Lean kernel; axioms propext/Classical.choice/Quot.sound; hand model GMGModel/Tridiag.lean; floating-point backward "
             "stability is measured (<= 2^-34 componentwise), not proved.",
        technique="Lean 4 proof (induction over the Schur complement, Sherman-Morrison identity, quadratic forms) + differential correspondence"),
    "C15": dict(
        category="proof",
        text="Lean 4 theorems about a field-by-field transcription of the hand-written copy/move members of Vector, SparseMatrixCOO, "
             "SparseMatrixCSR, DiagonalSolver and SymmetricTridiagonalSolver over a heap of identified buffers, for every scalar type: "
             "copy construction and copy assignment (any target size, including empty/moved-from source or target) never read or write "
             "out of bounds, yield an observationally equal object with fresh, disjoint storage; moves transfer the state and leave the "
             "documented empty object; well-formedness and absence of sharing are invariants of every operation sequence (induction); a "
             "tridiagonal solver copied after it has factorised solves like its source.  Tie: 2500 random histories per run on the real "
             "classes, every observable compared after every step, plus model-free oracles.",
        design_ref="DESIGN.md section 4, C15",
        note="Lean kernel; axioms propext/Classical.choice/Quot.sound; hand model GMGModel/Objects.lean; SparseLUSolver (std::vector members) "
             "is tied by correspondence only; defects F1, F11a, F11b found here were repaired by fix: commits.",
        technique="Lean 4 proof (invariant by induction over operation sequences, per-class unfolding) + differential histories on the real classes"),
    "C16": dict(
        category="proof",
        text="Lean 4 theorems, any field, any dimension: the map-level row-by-row elimination of SparseLUSolver refines the dense "
             "Doolittle recurrence; L*U = A entrywise with L unit lower and U upper triangular whenever no pivot vanishes; forward and "
             "backward substitution are correct, so solve returns x with A x = b; the exit branch fires exactly when a pivot passes the "
             "`tiny` test; the dense meaning of a row is invariant under permutation of its stored entries and insertion of stored "
             "zeros; strictly diagonally dominant matrices have non-vanishing pivots.  Tie: real SparseMatrixCSR/SparseLUSolver on "
             "700 random matrices per run vs the exact rational model, backward-error oracle.",
        design_ref="DESIGN.md section 4, C16",
        note="Lean kernel; axioms propext/Classical.choice/Quot.sound; std::unordered_map modelled as key-unique association list; the "
             "absolute 1e-12 pivot test + std::exit is known finding F7 (open).",
        technique="Lean 4 proof (row invariant of Doolittle elimination, finite-map refinement) + differential correspondence in exact rationals"),
    "C03": dict(
        category="proof",
        text="Lean 4 theorem give_eq_take: for every grid shape (nr >= 4, nt even >= 2), every coefficient field, both boundary modes, every "
             "f and x, the scatter form of applyAGive.cpp (all five position classes, folded over all nodes) equals the gather form of "
             "applyResidualTake.cpp at every node, in any field (across the origin under antipodal spacing symmetry, shown necessary by a "
             "machine-checked counterexample); Dirichlet rows are the identity, other rows the documented 9-/7-point form; the Jacobian "
             "elements satisfy arr*att - art^2/4 = alpha^2/4 (ellipticity).  Tie: real ResidualGive/ResidualTake on level chains with all "
             "cache-flag pairs and inherited caches vs the exact rational model fed with Jacobian entries evaluated at the level's own nodes.  "
             "CODE LEVEL (C03c): GMGModel/Cache.lean models both LevelCache constructors (with the library node numbering and the "
             "different splits of the two levels) and obtainValues; theorems coarsen_fresh (the sampling constructor reproduces the "
             "fresh constructor on the coarse grid, array by array), chain_fresh, coarsen_obtain (= direct evaluation at the coarse "
             "node); tie: every cache array of every level of real level chains, bit for bit.",
        design_ref="DESIGN.md section 4, C03", note="Lean kernel; axioms propext/Classical.choice/Quot.sound; hand model GMGModel/Stencil.lean; rounding covered by allowance 2^-40*S.",
        technique="Lean 4 proof (scatter/gather reindexing over the periodic grid) + differential correspondence in exact rationals"),
    "C05": dict(
        category="proof",
        text="Lean 4 theorems: <A x, y> = sum of symmetric nodal bilinear forms, hence the interior operator is symmetric in both boundary "
             "modes; each nodal form is a sum of four quadrant forms that are non-negative under ellipticity; positive definiteness is proved "
             "in Dirichlet mode (strictly, by induction inward from the boundary).  Across the origin positive definiteness does NOT follow "
             "from pointwise ellipticity (machine-checked counterexample psd_across_fails), so there it is measured: the check reads the "
             "matrix off the real residual operators and runs an exact rational LDL^T of its interior block.",
        design_ref="DESIGN.md section 4, C05", note="PARTIAL across the origin (measured per case, not proved); line blocks: SPD of the stored smoother line matrices is proved in Dirichlet mode (C06d), a hypothesis across the origin.",
        technique="Lean 4 proof (energy decomposition, sum-of-squares) + matrix read-off with exact LDL^T"),
    "C08": dict(
        category="proof",
        text="Lean 4 theorems for every admissible fine/coarse pair and every field: <P x, y> = <x, R y> for the code's bilinear pair and for "
             "the extrapolated pair (pure field identities), injection after (extrapolated / FMG) prolongation is the identity, prolongation is "
             "a convex combination with explicit non-negative weights summing to one (no new extrema, constants reproduced), linear functions "
             "are reproduced where fine nodes are midpoints, with the exact defect formula otherwise and a concrete witness that the code's "
             "weights fail without the midpoint hypothesis (known finding F5).  Tie: all ten entry points (optimised and reference) at 1 and "
             "4 threads against the exact rational model plus model-free oracles.",
        design_ref="DESIGN.md section 4, C08", note="Linear reproduction on every pair is false on the current tree (F5, open); the check reports it as KNOWN-FINDING and any other failure as a violation.",
        technique="Lean 4 proof (tensor factorisation, parity splits, cyclic shift) + differential correspondence"),
    "C09": dict(
        category="proof",
        text="Lean 4 theorems: the 4-point FMG weights sum to one and reproduce cubics for all positive spacings, in r, in theta (incl. the "
             "seam via the local form) and as a tensor product; coarse values are copied; the two lines next to the boundaries use exactly the "
             "2-point rule; every coarse index read is in range.  Start-up: the instruction program of initializeSolution() refines the nested "
             "iteration spec (coarsest direct solve, then interpolate and cycle level by level), its result depends on the level right-hand "
             "sides only (no stale work-vector contents), and with two levels and no cycles equals the interpolated coarse solution; the old "
             "loop start is shown to write nothing for two levels.  C09c instantiates the program with the code-level models: the two-level start "
             "vector is the FMG interpolation of a solution of the assembled coarse system, the start-up is total on admissible hierarchies "
             "(any depth, plain and extrapolated), and the give strategy's start-up equals the take strategy's.  Tie: transfer correspondence "
             "(with cubic oracles in r and theta on the implementation) + traced start-ups on the real object + the start-up executed inside "
             "the model (IEEE double) against the real initializeSolution().",
        design_ref="DESIGN.md section 4, C09", note="Defect F4 (loop started one level too high) repaired by a fix: commit; discretisation-level accuracy of the start vector is not proved.",
        technique="Lean 4 proof (field_simp/ring identities; induction over the instruction program) + trace correspondence"),
    "C10": dict(
        category="proof",
        text="Lean 4 theorems on the 'program = trace' IR for abstract operators, arbitrary memory and unbounded depth: the buffer-rotating "
             "programs of the V-, W- and F-cycle and of the implicitly extrapolated cycles compute exactly the textbook recursion; the result "
             "does not depend on scratch buffers; right-hand sides are never written; two levels without smoothing give u + P A_c^-1 R (f - A u) "
             "resp. the 4/3, -1/3 extrapolated combination; the exact solution is a fixed point under the stated operator hypotheses.  C10c instantiates the IR with the "
             "code-level models (GMGModel/Concrete.lean: assembled line matrices and LDL^T line solves, residual stencil, bilinear transfers, "
             "sparse-LU coarse solve): the strict interpreter the driver executes equals the interpreter of the theorems, and on every "
             "admissible two-level hierarchy with a Dirichlet inner boundary and elliptic data the concrete V-, W- and F-cycle leaves the "
             "exact discrete solution unchanged — with no operator hypothesis left; C10d: the same for any depth and for the implicitly extrapolated "
             "cycle with either level-0 smoother; C10e: the concrete cycle is total (never leaves through the sparse LU's exit branch) for any "
             "iterate, two levels without smoothing give u + P e with e solving the assembled coarse system, and the error propagation is "
             "independent of the solution (translation invariance); C10g: whole cycles of the give strategy equal those of the take strategy; C10h: the size hypotheses of these theorems are derived from the level-selection and split theorems (C17, C18) for every hierarchy setup() builds; C10i: the hierarchy itself is built in the model from grids and input functions through the cache constructors (GMGModel/Build.lean), its data are proved elliptic from alpha > 0, beta >= 0, det DF != 0, and the fixed-point theorem is stated end to end on the inputs; C10j: totality and translation invariance (plain and extrapolated) for every built hierarchy, with the odd nr of level 0, the level-1 side condition and the level-0/level-1 shape relation derived from the level-selection theorems instead of assumed.  Tie: the hooks log every vector-level operation of one "
             "private cycle and the log must equal the model program token for token; the whole concrete cycle is executed in the model "
             "(IEEE double, exact rationals for the smallest cases) against the real cycle.",
        design_ref="DESIGN.md section 4, C10 and R.9", note="Lean kernel; the operators behind each instruction are tied by C03/C04/C06/C07/C08 and, composed, by the whole-cycle stage.",
        technique="Lean 4 proof (refinement of an instruction list to a functional spec, frame rule) + exact symbolic trace comparison"),
    "C01": dict(
        category="proof",
        text="Proved on the model of the solve loop: at most maxIterations cycles run; a stop before the limit happens iff a tested norm met a "
             "tolerance, and then the converged predicate holds for the residual program evaluated on the RETURNED solution (nothing after the "
             "last test writes it); with both tolerances disabled exactly maxIterations cycles run.  The traced real solve() must follow the "
             "model loop (instructions, iteration count, switch of smoother, mean factor) and its stop is confirmed by an independent "
             "recomputation of the (extrapolated) residual.  NOT proved: contraction with factor < 1 for every configuration.",
        design_ref="DESIGN.md section 4, C01", note="PARTIAL: first sentence of the property only observed on sampled configurations; F10 (open) is a class where it fails.",
        technique="Lean 4 proof (state machine of the stop test) + trace replay + independent residual oracle"),
    "C13": dict(
        category="proof",
        text="Lean 4 theorem reuse_eq_fresh: for every option set, two solver objects whose level right-hand sides agree (whatever their "
             "residual history, iteration counters, smoother switch and all other buffer contents) return the same solution, iteration count, "
             "norms and stop decision — for all extrapolation modes, FMG on or off; a second solve on the same object reproduces the first.  "
             "Tie: histories on one real object compared bit for bit with fresh objects.",
        design_ref="DESIGN.md section 4, C13", note="Defect F2 (history and smoother switch survived a solve) repaired by a fix: commit; setup() is modelled as 'level right-hand sides are rebuilt'.",
        technique="Lean 4 proof (simulation between two runs of the loop) + differential histories"),
    "C04": dict(
        category="proof",
        text="Lean 4 theorems: the residual is affine in x with the operator's entries (take_affine); if a CSR matrix carries exactly those "
             "entries and no pivot vanishes, the vector returned by the map-level LU solve has zero residual at every node (C16.lu_solve "
             "composed with take_affine); in Dirichlet mode under ellipticity NO pivot vanishes (pivots_dirichlet: every leading principal "
             "block of the operator is injective by C05, and C16.pivots_of_leading_injective — elimination without pivoting never meets a "
             "zero pivot then), so solve_inverts_dirichlet needs no pivot hypothesis, and both strategies' solutions coincide.  Tie: the real CustomLU direct solvers (give and take, 1 and 4 threads): exact residual of the returned solution with "
             "the model operator, and — through the friend hook — every entry of the assembled CSR matrices against the operator.  "
             "CODE LEVEL (C04c): GMGModel/DirectCode.lean models DirectSolverTakeCustomLU::buildSolverMatrix (per-node stores in code order "
             "through the Stencil offset tables that tools/stencil_extract.py re-extracts from the header on every run); theorems "
             "assemble_in_bounds (no store leaves its row), assemble_entries (the assembled CSR matrix has exactly the operator's entries), "
             "code_solve_inverts(_dirichlet): the hypothesis `carries the operator's entries` is discharged for the code-level matrix; "
             "tie: every CSR slot (column, value, storage order) of the real take solver, bit-identical to the model run in double.  "
             "CODE LEVEL, GIVE (C04g): GMGModel/DirectGiveCode.lean models DirectSolverGiveCustomLU::buildSolverMatrix (every node scatters "
             "accumulating stores `+=` into its own row and its neighbours' rows, offsets from the table of the ROW's radial index, "
             "zero-initialised rows of getStencilSize, sequential order circle sections then radial sections; nothing is given TO a "
             "Dirichlet row, the Dirichlet nodes do give to their interior neighbour; across the origin the mixed terms towards the antipode "
             "are dropped); theorems assemble_in_bounds (nr >= 4, sharp: nr = 3 stores through offset -1), give_assemble_entries (the "
             "scatter-assembled matrix has exactly the operator's entries; nt even >= 4; across the origin antipodally symmetric angular "
             "spacing, sharp: hk_needed), give_take_same_matrix / give_take_same_pattern (same entries, same column in every slot as the "
             "take assembly), assemble_order_independent (any order of the +=), code_solve_inverts(_dirichlet), give_take_same_solution; "
             "tie: every CSR slot of the real give solver — threads=1 bit-identical to the model run in double, threads=4 within 2^-40*S.",
        design_ref="DESIGN.md section 4, C04 and R.9", note="across the origin (no Dirichlet inner boundary) non-vanishing pivots remain a hypothesis (C05 positive definiteness is only measured there); the absolute 1e-12 exit test of the LU (F7) is a separate hypothesis `tiny`.",
        technique="Lean 4 proof (linearity + LU correctness) + exact-residual correspondence and matrix read-out"),
    "C06": dict(
        category="proof",
        text="Spec-level Lean model of the zebra sweep (sweep equations per phase).  Theorems: the exact discrete solution is a fixed point; "
             "after a sweep the residual vanishes on the last colour; Dirichlet nodes carry the data; lines of one colour are decoupled "
             "(nt even), hence the sweep is unique whenever the line blocks are injective — which is proved in Dirichlet mode from C05; the "
             "sweep does not increase the energy norm of the error in Dirichlet mode (energy_full).  Tie: outputs of the real SmootherGive / "
             "SmootherTake must satisfy the sweep equations in exact rational arithmetic.  CODE LEVEL (C06c): GMGModel/SmootherCode.lean "
             "models SmootherTake (the stored main/sub/corner arrays of every line solver and the CSR rows of the innermost circle, "
             "temp = rhs - A_sc^ortho x, LDL^T / Sherman-Morrison / sparse LU line solves, the four colour phases in code order on a "
             "row-major array); theorems circle_split / inner_split / radial_split (A_sc + A_sc^ortho = A row by row), *_matrix_rows (the "
             "symmetric storage represents those rows) and code_sweep_isSweep: whatever the modelled smoothing() returns satisfies every "
             "sweep equation of the spec (under exact line solves, which linesOK_of_spd derives from SPD line blocks), so all spec "
             "theorems apply to the code-level sweep; tie: every stored matrix entry, temp and the sweep result of the real classes "
             "against the model in exact rationals and in IEEE double (take path bit-identical).  DIRICHLET MODE (C06d): the stored circle "
             "and radial matrices are SPD (C05.pd_dirichlet transported to the stored arrays), the innermost circle's matrix is the "
             "identity, hence LinesOK is a theorem and code_sweep_isSweep_dirichlet / code_sweep_energy_dirichlet hold with no hypothesis "
             "on the line solves: the modelled smoothing() never divides by zero, is an exact zebra relaxation and never increases the "
             "energy norm of the error.  GIVE STRATEGY (C06g): GMGModel/SmootherGiveCode.lean models SmootherGive (per-node accumulating "
             "stores of the scatter assembly incl. the stores that hit no branch of the update macro, the scatter kernels that build temp, "
             "smoothingSequential); theorems give_matrices_eq_take, give_inner_eq_take, give_temp_eq_take and give_sweep_eq_take_sweep: the "
             "give code-level sweep returns the SAME array as the take code-level sweep (across the origin under antipodally symmetric "
             "angular spacing; hk_needed / hnr_needed are the counterexamples), so every C06c / C06d theorem transfers — the clause 'gives "
             "the same result with either strategy' as a theorem; tie: give / 1 thread stored entries, temp and line solves bit-identical "
             "to the scatter model in double, 4 threads within the allowance.",
        design_ref="DESIGN.md section 4, C06 and R.9", note="the give variant's scatter assembly and the extrapolated smoothers are tied by correspondence to the take model / the spec; energy monotonicity across the origin inherits the C05 gap.",
        technique="Lean 4 proof about the relaxation spec + defect check of the implementation's output"),
    "C07": dict(
        category="proof",
        text="Lean 4 theorems about the extrapolated sweep spec: nodes of the next coarser grid keep their value, all other nodes satisfy their "
             "sweep equation, the exact solution is a fixed point, the residual vanishes on the fine-only nodes of the last colour, relaxed "
             "nodes of an even line are exactly its odd positions.  Tie: real ExtrapolatedSmootherGive / Take outputs; coarse nodes compared "
             "bit for bit with the input.  CODE LEVEL (C07c): GMGModel/ExSmootherCode.lean models ExtrapolatedSmootherTake (tridiagonal systems "
             "on odd circles / odd radial lines, DiagonalSolver systems on the lines through coarse nodes with literal 1.0 rows at the "
             "coarse nodes, the innermost circle's CSR matrix, every branch of temp = rhs - A_sc^ortho x, the sweep in code order); theorems: "
             "row-splitting identities per node class, the stored arrays represent those rows, code_exsweep_isExSweep (the modelled "
             "extrapolatedSmoothing() satisfies every equation of the extrapolated spec; needs nr odd — nr_odd_needed is a machine-checked "
             "counterexample for even nr, which C18.levels_admissible excludes on smoothed levels), code_exsweep_coarse_fixed (coarse nodes "
             "are returned EXACTLY, any field), code_exsweep_last_colour; tie: all stored entries and temp values of the real take class "
             "bit-identical to the model in double, sweep results bit-identical, coarse nodes bit-identical to the input.  GIVE STRATEGY (C07g): "
             "GMGModel/ExSmootherGiveCode.lean models ExtrapolatedSmootherGive (all 25 leaves of the scatter assembly as accumulating stores "
             "through the header's offset tables, both scatter kernels, the sequential sweep); theorems exgive_assemble_in_bounds, "
             "exgive_matrices_eq_take, exgive_temp_eq_take_*, exgive_sweep_eq_take_sweep (the give code-level sweep returns the same array as "
             "the take one — 'identical for both strategies' as a theorem) and the transfers of C07c; every hypothesis shown necessary by an "
             "evaluated instance (nc = 2 and nt = 6 across the origin make the C++ store out of bounds — only asserts guard them; both are "
             "unreachable through setup()).",
        design_ref="DESIGN.md section 4, C07 and R.9", note="the give variant's scatter assembly is tied to the take model's matrices within the allowance and through the sweep equations.",
        technique="Lean 4 proof (code-level model refines the relaxation spec) + bitwise correspondence of stored matrices, right-hand sides and sweeps"),
    "C02": dict(
        category="proof",
        text="PARTIAL.  Proved: the load scaling of discretize_rhs_f is the mass-term scaling of the stencil (constants with f = beta*c are "
             "reproduced at every row off the origin, with the exact defect 1/4 c (art(0,j+1) - art(0,j-1)) of the 7-point closure at the "
             "origin row); Dirichlet rows reproduce the data; the right-hand-side program is source x load weight; for the circular geometry "
             "the radial flux form is exact for linear-in-r data on any radial spacing.  NOT proved: the discretisation order.  Tie: level "
             "right-hand sides of real setup() runs; oracle: observed error orders on three refinements, with and without extrapolation.",
        design_ref="DESIGN.md section 4, C02", note="asymptotic order only measured (calibrated thresholds); F9 (wrong shipped source terms, open) is reported as known finding.",
        technique="Lean 4 proof of consistency identities + rhs correspondence + order oracle"),
    "C19": dict(
        category="proof",
        text="Lean 4 theorems (real analysis, Mathlib HasDerivAt) about terms REGENERATED from the C++ on every run by tools/cxx_expr.py (68 "
             "analytic functions): the hand-written Jacobian entries of the Circular, Shafranov and Czarny mappings are the partial derivatives "
             "of Fx, Fy for all parameters and all (r, theta) of the domain (Czarny: 0 < eps < 1, 0 <= r <= Rmax), closed-form determinants; "
             "alpha*beta = 1 for the three Gyro profiles (Sonnendrucker: arctan bound proved, r <= Rmax); alpha > 0; boundary data = exact "
             "solution for all 12 problem classes; the symbolic derivative D and the model's PDE operator Lu are correct (HasDerivAt, "
             "flux_spec, metric_is_inverse, Lu_is_pde).  SOURCE TERMS AS THEOREMS (C19s): the rhs_f of the 22 Circular-geometry classes is "
             "translated too (Generated/SourceTerms.lean, pinned list); for 15 of the 21 manufactured problems on the circular geometry "
             "(Poisson, Zoni, ZoniGyro, ZoniShifted, ZoniShiftedGyro x CartesianR2, CartesianR6, PolarR6) `rhs_f = Lu(exact solution)` is "
             "PROVED at every point with r > 0 (Lu_circ_formula + field_simp / ring over the regenerated terms); for the 6 Sonnendrucker "
             "classes the exact identity is FALSE (machine-checked counterexamples src_*_false): the shipped formulas hard-code alpha' with "
             "15-digit literals rounded independently of the literals in alpha; proved instead: the exact defect (src_*_defect) and "
             "|rhs_f - Lu u| <= 1e-11 |Rmax u_r| on 0 < r <= Rmax (src_*_approx), i.e. equality to rounding.  PARTIAL for the 44 Shafranov / "
             "Czarny classes (pow(x, 3/2) is outside the translator's grammar, 2.5 MB of formulas): `rhs_f = Lu(exact solution)` is checked "
             "pointwise (model-derived operator vs the real class, 3 000 points per run) — that part is correspondence, not proof.  Culham "
             "(table-driven) by finite differences.",
        design_ref="DESIGN.md section R.3 / section 4, C19",
        note="F9 (three Poisson x Czarny source terms, open) is reported as a known finding; F8 (Culham cos 2theta) fixed.  Trusted: the "
             "translator's expression grammar (an unknown construct is an extraction failure = broken obligation).",
        technique="Lean 4 proof over translator-generated terms (symbolic differentiation proved correct) + pointwise correspondence for source terms"),
    "C18": dict(
        category="proof",
        text="Lean 4 theorems over exact rationals and unbounded parameters: the anisotropic radial division (whole routine, every array "
             "access checked in the model) never reads or writes out of bounds, never dereferences an iterator past the set, never passes a "
             "negative count to std::advance or 0 to log2, for every refinement radius in [R0,Rmax] and every nr_exp > anisotropic_factor >= 1 "
             "(radii outside are rejected with an exception); uniform divisions, midpoint refinement and divideBy2 refinement yield strictly "
             "increasing radii from exactly R0 to exactly Rmax whose odd nodes are midpoints and which nest; chooseNumberOfLevels returns L >= 2 "
             "with every level but the coarsest coarsenable, or throws.  Tie: the real constructor in a sanitised child process per tuple.",
        design_ref="DESIGN.md section 4, C18", note="defect F6 repaired by a fix: commit; output spec of the anisotropic branch (monotone, endpoints) is tied by correspondence, not proved; iostream formatting exercised only.",
        technique="Lean 4 proof (lattice invariant of the refinement passes, floor/log arithmetic) + sanitised differential correspondence"),
    "C20": dict(
        category="proof",
        text="Lean 4 theorems about the decision model of option handling: every option tuple ends in a parser usage exit, an exception or a "
             "run — the model never predicts undefined behaviour (uses C18.inbounds and levels_never_ub); a run implies an accepted test "
             "case, caches for the take strategy, a generated grid and L >= 2 coarsenable levels with nr >= 5, nt >= 4 on the coarsest.  The "
             "test-case table is regenerated from select_test_case.cpp on every run.  Tie: random option tuples through the real parser, "
             "setup() and solve() in child processes (ASan/UBSan builds in the thorough tier).  ORCHESTRATION (C20s): GMGModel/Setup.lean is the "
             "decision table of what setup() provides per level (smoother / extrapolated smoother / direct solver / residual objects, built "
             "right-hand sides, threads per level, the smoother switch); theorems stop_ok, cycle_ok, init_ok, rhs_never_written: for every "
             "level count >= 2, every mode, cycle type, FMG setting and smoothing counts, no instruction of any program solve() can run "
             "calls an operator object that was not created, indexes a missing level, reads a right-hand side that was not built or writes "
             "one (negative theorems show the model sees a one-level hierarchy, a missing level-1 right-hand side and a missing smoother); "
             "tie: the table against real setup() runs, and instrOK evaluated on the trace of the following real solve().",
        design_ref="DESIGN.md section 4, C20 and R.9", note="PARTIAL: UB-freedom of spec-modelled C++ (smoother internals, assembly) rests on sanitizer runs; defects F3, F6, F12 repaired.",
        technique="Lean 4 proof over a decision model + translator for the test-case table + process-level differential testing"),
    "C11": dict(
        category="proof",
        text="The OpenMP phase structure of twelve kernel-dispatch parallel regions (72 work-sharing loops: bounds, strides, nowait flags, "
             "bodies with their if-ladders) is REGENERATED from the C++ by a translator on every run; Lean 4 theorems over the generated terms "
             "prove, for every admissible grid shape (unbounded nr, ntheta, number of circles) and hence for every thread count and every "
             "assignment of iterations to threads, that two different iterations of one barrier interval never write the same node of a "
             "shared array nor write what the other reads (hand-written kernel footprints) — including the nowait overlaps and the ntheta%3 "
             "remainder ladders; the give smoothers need ntheta % 4 = 0 (machine-checked counterexample otherwise); the per-thread solver "
             "scratch vectors are declared inside the region.  The hand-written kernel footprints are compared on every run with the cells the "
             "real kernels write / read (probe of every kernel x line x colour).  The 36 OTHER parallel regions (transfers, caches, rhs, "
             "vector kernels, reductions ...) are regenerated by a second translator that admits only owner-computes loops; each gets a "
             "generated, omega-proved separation lemma and C11o.owner_regions_race_free covers them for every shape.  When a proof breaks the "
             "regenerated schedule is searched for a concrete conflicting pair on all small shapes.",
        design_ref="DESIGN.md section R.2 / section 4, C11", note="OpenMP runtime / memory model trusted; both translators' syntactic recognition trusted (pinned region lists, failure = broken obligation); kernel footprints hand-written but checked against the real kernels every run; TSan+Archer in the thorough tier.",
        technique="two translators (C++ -> Lean schedule terms) + Lean 4 proof (omega over generated terms) + footprint correspondence + bounded conflict search + TSan"),
    "C12": dict(
        category="proof",
        text="Lean 4 theorems: tasks with pairwise non-interfering footprints that respect their footprints commute, so every order of the "
             "work items of a barrier interval of every generated region gives the same memory, for every value type (hence bit for bit in "
             "double) — combined with C11 this is thread-count and schedule independence of all twelve regions; sums / maxima over any "
             "chunking combined in any order equal the plain sum / maximum (exact arithmetic); the threads-per-level formula stays in "
             "[1, max] and is antitone.  Tie / oracle: every operator at 1..32 threads with repeats, vector kernels around the 10 000 "
             "threshold against exact rational values, whole solves at several thread counts.",
        design_ref="DESIGN.md section 4, C12", note="serialisability of race-free OpenMP programs assumed; reductions are not bit-reproducible by specification (compared to rounding only).",
        technique="Lean 4 proof (commutation from disjoint footprints, List.Perm induction) over the generated schedule + reproducibility oracle"),
}

# stages and theorem files added after the build round (sessions 3-4), appended to the level text of the property
ADDED = {
 "C01": " Added since: convergence oracle evaluated on the implementation's report even when a trace no longer replays; disc-like domains and genuine annuli; second-solve and reported-figure oracles.",
 "C02": " Added since: the order oracle also runs the give strategy without caches and with a two-level cap.",
 "C03": " Added since: code-level cache model (C03c), whole cycles give = take (C10g), sampled caches = fresh caches along the chain (C10i); stage through the solver object (setup() -> Level wrappers) with a twin object of the other strategy.",
 "C04": " Added since: code-level assembly models of both direct solvers (C04c, C04g; tables regenerated from the headers); split histories in one process, tiny / huge right-hand sides, stage through the solver object.",
 "C05": " Added since: the stored line matrices of the real smoothers against the SPD model (C06d) with an exact LDL^T oracle; user-supplied profiles with dominating reaction term; operators of the built hierarchy are SPD from hypotheses on the inputs only (C05b).",
 "C06": " Added since: code-level models of SmootherTake / SmootherGive with refinement theorems (C06c, C06d, C06g); repeated sweeps of one long-lived smoother object; stage through the solver object.",
 "C07": " Added since: code-level models of both extrapolated smoothers (C07c, C07g); repeated sweeps of one object with the same work vector; stage through the solver object.",
 "C08": " Added since: long-lived Interpolation objects over same-shape pairs with different coordinates; adjointness and convexity on the pairs of the built hierarchy (C08b).",
 "C12": " Added since: structured vectors for the kernels at six thread counts; two-cycle solves under four thread-share factors (1e-9).",
 "C13": " Added since: C13c — over the code-level models the start-up and every cycle read nothing an earlier solve could have left behind; setter / refinement-loop / delta histories against fresh objects.",
 "C14": " Added since: sparse right-hand sides (unit vectors, zero head / tail); slot re-assignment and move-on histories of solver objects.",
 "C15": " Added since: a solve that no longer returns the solution after a history of copies / moves is reported with the history as the failing input.",
 "C16": " Added since: sparse right-hand sides; large strictly diagonally dominant systems; solver object histories; NDEBUG search and crash probe when the harness dies.",
 "C17": " Added since: copy / move histories of grids; ASan build with assertions compiled out; many angle counts (even ntheta up to 1300); grids from the parametric constructor with divideBy2.",
 "C18": " Added since: coordinate lists with equal neighbours (files, vectors, thin annulus); nestedness oracle on the implementation (divideBy2 = d contains d - 1).",
 "C19": " Added since: 15 source terms of the Circular geometry proved symbolically (C19s); finite-difference oracle on the compiled classes; evaluation histories (several objects of one class alive together); the shipped inputs satisfy the hypotheses of the end-to-end theorem (C19i) and C19e states shipped problem -> fixed point of the concrete cycle in one theorem.",
 "C20": " Added since: totality of the concrete plain / extrapolated cycles and of the FMG start-up over the code-level models (C10e, C10f, C09c: the modelled smoothers, assemblies and sparse LU never take the exit branch nor store out of bounds on admissible hierarchies); setup() decision table (C20s) on real traces; Vector copies and kernels under ASan/UBSan around the parallel switch; reported error figures vs serial recomputation.",
}

PENDING_REASON = "not claimed yet: model and theorems for this property are still being built (see DESIGN.md section 7)"

def main():
    props = [json.loads(l)["id"] for l in open(os.path.join(ROOT, "properties.jsonl"))]
    checks = []
    for pid in props:
        if pid not in CLAIMED:
            continue
        c = CLAIMED[pid]
        checks.append({
            "property_id": pid,
            "quick_cmd": f"python3 tools/verif.py check {pid} --tier quick",
            "thorough_cmd": f"python3 tools/verif.py check {pid} --tier thorough",
            "evidence_file": f"/verif/evidence/{pid}.json",
            "replay_cmd_template": f"python3 tools/verif.py replay {{path}}",
            "engine": "lean4-proof+correspondence",
            "level_claimed": {"category": c["category"], "text": c["text"] + ADDED.get(pid, ""), "design_ref": c["design_ref"]},
            "level_note": c["note"],
            "technique": c["technique"],
        })
    m = {
        "version": 1,
        "setup_cmd": "python3 tools/verif.py setup",
        "hooks": {
            "guard": "GMGPOLAR_VERIF",
            "enable": "cmake -DCMAKE_CXX_FLAGS=-DGMGPOLAR_VERIF (tools/verif.py builds /repo's working tree into /verif/.build/repo-* with the guard on)",
            "baseline_off_cmd": "cmake --build /repo/_build && ctest --test-dir /repo/_build -j8 --timeout 900",
            "source_commits": json.load(open(os.path.join(ROOT, "tools", "hook_commits.json"))) if os.path.exists(os.path.join(ROOT, "tools", "hook_commits.json")) else [],
            "add_only": True,
        },
        "engines": [{
            "name": "lean4-proof+correspondence",
            "path": "/verif/lean (GMGModel, GMGProofs, gmgdriver), /verif/harness, /verif/tools/verif.py",
            "serves_properties": [c["property_id"] for c in checks],
            "kind_free_text": "machine-checked Lean 4 theorems about a hand-written executable model; model tied to /repo on "
                              "every run by a differential correspondence check (C++ harness against the real classes, "
                              "doubles transported as hex bits, comparison in exact rational arithmetic inside the Lean driver) "
                              "and, for textual facts, by translators that regenerate Lean input from the source",
        }],
        "checks": checks,
        "notes": "See DESIGN.md. Known findings live in known_findings.json.",
        "not_applicable": [{"property_id": p, "reason": PENDING_REASON} for p in props if p not in CLAIMED],
    }
    json.dump(m, open(os.path.join(ROOT, "MANIFEST.json"), "w"), indent=1)
    print("MANIFEST.json:", len(checks), "checks,", len(m["not_applicable"]), "not_applicable")

if __name__ == "__main__":
    main()
