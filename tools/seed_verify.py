#!/usr/bin/env python3
"""Confirm a seeded change delivered by a sub-agent, in a FRESH scratch worktree of /repo (never in /repo itself):
     seed_verify.py <seed-id> <agent-worktree> [--prop Cxx]
   1. copies <agent-worktree>/demo (patch.diff, demonstration, run.sh, notes.md) to /verif/seeded/<seed-id>/,
   2. removes the agent's worktree and re-creates a clean one at the same path (the demonstrations use absolute paths),
   3. unpatched: build, demonstration must exit 0,
   4. patched:   build, the whole pinned test suite must pass, demonstration must exit non-zero,
   5. writes the outcome into /verif/seeded/<seed-id>/meta.json and removes the worktree."""
import os, sys, json, shutil, subprocess, time, argparse

ROOT = os.path.dirname(os.path.dirname(os.path.abspath(__file__)))


def sh(cmd, cwd=None, timeout=3600):
    r = subprocess.run(cmd, shell=True, cwd=cwd, stdout=subprocess.PIPE, stderr=subprocess.STDOUT, text=True, timeout=timeout,
                       env=dict(os.environ, OMP_WAIT_POLICY="passive"))   # idle OpenMP threads sleep: the suite stays inside its timeouts on a loaded machine
    return r.returncode, r.stdout


def main():
    ap = argparse.ArgumentParser()
    ap.add_argument("sid")
    ap.add_argument("wt")
    ap.add_argument("--prop", default=None)
    a = ap.parse_args()
    wt = a.wt.rstrip("/")
    prop = a.prop or a.sid.split("-")[0]
    dst = os.path.join(ROOT, "seeded", a.sid)
    demo_src = os.path.join(wt, "demo")
    if os.path.isdir(demo_src):
        os.makedirs(dst, exist_ok=True)
        for f in os.listdir(demo_src):
            p = os.path.join(demo_src, f)
            if os.path.isfile(p) and os.path.getsize(p) < 200_000 and not os.access(p, os.X_OK) or f.endswith(".sh"):
                shutil.copy(p, os.path.join(dst, f))
    patch = os.path.join(dst, "patch.diff")
    assert os.path.exists(patch), "no patch.diff"
    sh(f"git -C /repo worktree remove --force {wt}")
    shutil.rmtree(wt, ignore_errors=True)
    sh("git -C /repo worktree prune")
    rc, out = sh(f"git -C /repo worktree add --detach {wt} HEAD")
    assert rc == 0, out
    os.makedirs(demo_src, exist_ok=True)
    for f in os.listdir(dst):
        if f != "meta.json":
            shutil.copy(os.path.join(dst, f), os.path.join(demo_src, f))
    res = dict(property=prop, seed=a.sid, repo_head=sh("git -C /repo rev-parse --short HEAD")[1].strip(), ran=[])
    t0 = time.time()
    cfg = "cmake -G Ninja -S . -B _b -DFETCHCONTENT_FULLY_DISCONNECTED=ON -DFETCHCONTENT_SOURCE_DIR_GOOGLETEST=/usr/src/googletest > /dev/null && ninja -C _b > /dev/null"
    rc, out = sh(cfg, cwd=wt)
    assert rc == 0, "baseline build failed\n" + out[-2000:]
    rc0, out0 = sh("bash demo/run.sh", cwd=wt)
    res["ran"].append("unpatched: cmake+ninja; bash demo/run.sh")
    res["demo_unpatched_exit"] = rc0
    res["demo_unpatched_tail"] = out0[-600:]
    rc, out = sh(f"git apply {patch}", cwd=wt)
    assert rc == 0, "patch does not apply\n" + out
    rc, out = sh("ninja -C _b > /dev/null", cwd=wt)
    res["patched_builds"] = rc == 0
    rc, out = sh("ctest --test-dir _b -j8 --timeout 900 2>&1 | tail -5", cwd=wt, timeout=7200)
    if "100% tests passed" not in out:
        # the machine is shared with other jobs: a timeout under load is not a failure of the change; re-run what failed, generously
        rc, out2 = sh("ctest --test-dir _b --rerun-failed -j2 --timeout 3600 2>&1 | tail -5", cwd=wt, timeout=14400)
        out = out + "\n[rerun-failed]\n" + out2
        if "100% tests passed" in out2:
            out = out2
    res["ran"].append("patched: git apply patch.diff; ninja; ctest --test-dir _b -j8 --timeout 900; bash demo/run.sh")
    res["ctest_patched"] = [l for l in out.splitlines() if "tests passed" in l or "tests failed" in l]
    res["suite_passes_patched"] = any("100% tests passed" in l for l in res["ctest_patched"])
    rc1, out1 = sh("bash demo/run.sh", cwd=wt)
    res["demo_patched_exit"] = rc1
    res["demo_patched_tail"] = out1[-800:]
    res["confirmed"] = bool(rc0 == 0 and rc1 != 0 and res["suite_passes_patched"] and res["patched_builds"])
    res["wall_s"] = round(time.time() - t0, 1)
    sh(f"git -C /repo worktree remove --force {wt}")
    shutil.rmtree(wt, ignore_errors=True)
    sh("git -C /repo worktree prune")
    mp = os.path.join(dst, "meta.json")
    meta = json.load(open(mp)) if os.path.exists(mp) else {}
    meta.update(verification=res)
    meta.setdefault("property", prop)
    json.dump(meta, open(mp, "w"), indent=1)
    print(json.dumps({k: res[k] for k in ("confirmed", "demo_unpatched_exit", "demo_patched_exit", "suite_passes_patched", "wall_s")}))
    sys.exit(0 if res["confirmed"] else 1)


if __name__ == "__main__":
    main()
