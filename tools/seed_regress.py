#!/usr/bin/env python3
"""Regression sweep over all kept seeded changes, WITHOUT touching /repo or /verif's build state:
     seed_regress.py <scratch-dir> [ids…]
   copies /verif to <scratch-dir>/verif, creates a git worktree of /repo in <scratch-dir>/repo, and for every seeded/<id>/ applies the
   patch there, runs the quick check of the seed's property from the copy (VERIF_REPO=<scratch-dir>/repo), reverts, and writes
   <scratch-dir>/regress.json: {id: {exit, violation, failing_input}}.  The caller removes <scratch-dir> and the worktree afterwards."""
import os, sys, json, shutil, subprocess, re, time

ROOT = os.path.dirname(os.path.dirname(os.path.abspath(__file__)))


def sh(cmd, **kw):
    return subprocess.run(cmd, shell=True, stdout=subprocess.PIPE, stderr=subprocess.STDOUT, text=True, **kw)


def main():
    scratch = os.path.abspath(sys.argv[1])
    ids = sys.argv[2:] or sorted(d for d in os.listdir(os.path.join(ROOT, "seeded")) if os.path.exists(os.path.join(ROOT, "seeded", d, "patch.diff")))
    os.makedirs(scratch, exist_ok=True)
    vcopy, wt = os.path.join(scratch, "verif"), os.path.join(scratch, "repo")
    if not os.path.isdir(vcopy):
        sh(f"cp -r {ROOT} {vcopy} && rm -rf {vcopy}/.build")
    if not os.path.isdir(wt):
        r = sh(f"git -C /repo worktree add --detach {wt} HEAD")
        assert r.returncode == 0, r.stdout
    out_path = os.path.join(scratch, "regress.json")
    res = json.load(open(out_path)) if os.path.exists(out_path) else {}
    env = dict(os.environ, VERIF_REPO=wt, VERIF_SEED=os.environ.get("REGRESS_SEED", "1"))
    for sid in ids:
        if sid in res:
            continue
        d = os.path.join(ROOT, "seeded", sid)
        meta = json.load(open(os.path.join(d, "meta.json"))) if os.path.exists(os.path.join(d, "meta.json")) else {}
        prop = meta.get("property", sid.split("-")[0])
        sh(f"git -C {wt} checkout -- . && git -C {wt} clean -fdq")
        r = sh(f"git -C {wt} apply {d}/patch.diff")
        if r.returncode != 0:
            res[sid] = {"error": "patch does not apply: " + r.stdout[-300:]}
            json.dump(res, open(out_path, "w"), indent=1)
            continue
        t = time.time()
        r = sh(f"python3 {vcopy}/tools/verif.py check {prop} --tier quick", env=env, timeout=3600)
        viol = [l for l in r.stdout.splitlines() if l.startswith("VIOLATION")]
        res[sid] = {"property": prop, "exit": r.returncode, "violation": bool(viol), "failing_input": bool(viol) and not any("no-failing-input-found" in v for v in viol),
                    "wall_s": round(time.time() - t, 1), "line": (viol[0] if viol else r.stdout.strip().splitlines()[-1][:200] if r.stdout.strip() else "")}
        print(sid, res[sid], flush=True)
        json.dump(res, open(out_path, "w"), indent=1)
    sh(f"git -C {wt} checkout -- . && git -C {wt} clean -fdq")


if __name__ == "__main__":
    main()
