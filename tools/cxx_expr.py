#!/usr/bin/env python3
"""Translator: the small analytic input functions of the repository  ->  lean/Generated/InputFns.lean (Sym.Expr terms)

Parses the bodies (`double tmp = …;` definitions followed by one `return …;`) of
  * Fx, Fy, dFx_dr, dFy_dr, dFx_dt, dFy_dt of the Circular / Shafranov / Czarny geometries,
  * alpha, beta of the seven coefficient profiles,
  * exact_solution of every non-Culham exact-solution class,
  * u_D, u_D_Interior of every non-Culham boundary class
with a recursive-descent parser for  + - * /  unary minus, parentheses, decimal literals, M_PI, the members Rmax /
elongation / shift / alpha_jump, `factor_xi`, and the calls pow(x, integer) sqrt sin cos exp tanh atan.
Anything else is an extraction failure (exit 2)."""
import os, re, sys, json
from fractions import Fraction
from decimal import Decimal

REPO = os.environ.get("VERIF_REPO", "/repo")


class ExtractError(Exception):
    pass


TOKEN = re.compile(r"\s*(?:(\d+\.\d*(?:[eE][-+]?\d+)?|\d+(?:[eE][-+]?\d+)?|\.\d+)|([A-Za-z_]\w*)|(.))")


def tokenize(s):
    out, pos = [], 0
    s = s.strip()
    while pos < len(s):
        m = TOKEN.match(s, pos)
        if not m:
            raise ExtractError("tokenise: " + s[pos:pos + 20])
        if m.group(1):
            out.append(("num", m.group(1)))
        elif m.group(2):
            out.append(("id", m.group(2)))
        else:
            out.append(("op", m.group(3)))
        pos = m.end()
    return out


PARAMS = {"Rmax": 0, "elongation_kappa": 1, "inverse_aspect_ratio_epsilon": 1, "shift_delta": 2, "ellipticity_e": 2, "alpha_jump": 3}
FUNCS = {"sqrt": ".sqrt", "sin": ".sin", "cos": ".cos", "exp": ".exp", "tanh": ".tanh", "atan": ".atan"}
FACTOR_XI = "(.div (.num 1 1) (.sqrt (.sub (.num 1 1) (.div (.mul (.par 1) (.par 1)) (.num 4 1)))))"


class Parser:
    def __init__(self, toks, env):
        self.t, self.i, self.env = toks, 0, env

    def peek(self):
        return self.t[self.i] if self.i < len(self.t) else ("eof", "")

    def eat(self, kind=None, val=None):
        k, v = self.peek()
        if (kind and k != kind) or (val is not None and v != val):
            raise ExtractError(f"expected {kind} {val}, got {k} {v}")
        self.i += 1
        return v

    def expr(self):
        a = self.term()
        while self.peek() in (("op", "+"), ("op", "-")):
            op = self.eat()
            b = self.term()
            a = f"(.{'add' if op == '+' else 'sub'} {a} {b})"
        return a

    def term(self):
        a = self.unary()
        while self.peek() in (("op", "*"), ("op", "/")):
            op = self.eat()
            b = self.unary()
            a = f"(.{'mul' if op == '*' else 'div'} {a} {b})"
        return a

    def unary(self):
        if self.peek() == ("op", "-"):
            self.eat()
            return f"(.neg {self.unary()})"
        if self.peek() == ("op", "+"):
            self.eat()
            return self.unary()
        return self.primary()

    def primary(self):
        k, v = self.peek()
        if k == "num":
            self.eat()
            fr = Fraction(Decimal(v))
            return f"(.num {fr.numerator} {fr.denominator})"
        if k == "op" and v == "(":
            self.eat()
            e = self.expr()
            self.eat("op", ")")
            return e
        if k == "id":
            self.eat()
            if self.peek() == ("op", "("):
                self.eat()
                args = [self.expr()]
                while self.peek() == ("op", ","):
                    self.eat()
                    args.append(self.expr())
                self.eat("op", ")")
                if v == "pow":
                    mneg = re.fullmatch(r"\(\.neg \(\.num (\d+) 1\)\)", args[1])
                    if mneg:
                        return f"(.div (.num 1 1) (.powN {args[0]} {mneg.group(1)}))"
                    m = re.fullmatch(r"\(\.num (\d+) 1\)", args[1])
                    if not m:
                        raise ExtractError("pow with a non-integer exponent: " + args[1])
                    return f"(.powN {args[0]} {m.group(1)})"
                if v in FUNCS and len(args) == 1:
                    return f"({FUNCS[v]} {args[0]})"
                raise ExtractError("unknown function " + v)
            if v == "r":
                return "(.v .r)"
            if v == "theta":
                return "(.v .th)"
            if v == "sin_theta":
                return "(.sin (.v .th))"
            if v == "cos_theta":
                return "(.cos (.v .th))"
            if v == "M_PI":
                return ".pi"
            if v == "factor_xi":
                return FACTOR_XI
            if v in PARAMS:
                return f"(.par {PARAMS[v]})"
            if v in self.env:
                return self.env[v]
            raise ExtractError("unknown identifier " + v)
        raise ExtractError(f"unexpected token {k} {v}")


def parse_body(body):
    body = re.sub(r"/\*.*?\*/", "", body, flags=re.S)
    body = re.sub(r"//[^\n]*", "", body)
    body = body.replace("(double)", "")
    env = {}
    stmts = [x.strip() for x in body.split(";") if x.strip()]
    for st in stmts:
        m = re.match(r"(?:const\s+)?double\s+(\w+)\s*=\s*(.*)$", st, flags=re.S)
        if m:
            p = Parser(tokenize(m.group(2)), env)
            env[m.group(1)] = p.expr()
            if p.peek()[0] != "eof":
                raise ExtractError("trailing tokens in " + st[:60])
            continue
        m = re.match(r"return\s+(.*)$", st, flags=re.S)
        if m:
            p = Parser(tokenize(m.group(1)), env)
            e = p.expr()
            if p.peek()[0] != "eof":
                raise ExtractError("trailing tokens in return")
            return e
        raise ExtractError("unsupported statement: " + st[:80])
    raise ExtractError("no return")


def functions_in(path):
    """{(Class, fn): body} for `double Class::fn(...) const { ... }`"""
    src = open(path).read()
    out = {}
    for m in re.finditer(r"double\s+(\w+)::(\w+)\s*\([^)]*\)\s*const\s*\{", src):
        i = m.end() - 1
        d = 0
        for k in range(i, len(src)):
            if src[k] == "{":
                d += 1
            elif src[k] == "}":
                d -= 1
                if d == 0:
                    out[(m.group(1), m.group(2))] = src[i + 1:k]
                    break
    return out


def main():
    root = os.path.dirname(os.path.dirname(os.path.abspath(__file__)))
    out_path = sys.argv[1] if len(sys.argv) > 1 else os.path.join(root, "lean", "Generated", "InputFns.lean")
    files = []
    for g in ("circular", "shafranov", "czarny"):
        files.append(os.path.join(REPO, f"include/InputFunctions/DomainGeometry/{g}Geometry.inl"))
    for d in ("DensityProfileCoefficients", "ExactSolution", "BoundaryConditions"):
        dd = os.path.join(REPO, "src/InputFunctions", d)
        files += sorted(os.path.join(dd, f) for f in os.listdir(dd) if f.endswith(".cpp") and "Culham" not in f)
    wanted = {"Fx", "Fy", "dFx_dr", "dFy_dr", "dFx_dt", "dFy_dt", "alpha", "beta", "exact_solution", "u_D", "u_D_Interior"}
    defs, table = [], []
    try:
        for f in files:
            for (cls, fn), body in functions_in(f).items():
                if fn not in wanted:
                    continue
                e = parse_body(body)
                name = f"{cls}_{fn}"
                defs.append(f"def {name} : Expr := {e}")
                table.append((cls, fn, name))
    except ExtractError as ex:
        print("EXTRACTION FAILED:", ex, file=sys.stderr)
        sys.exit(2)
    # source terms: `rhs_f` of every class whose body is inside the grammar (all Circular-geometry classes; the Shafranov /
    # Czarny ones use pow(x, 3.0 / 2.0) and are compared pointwise only).  The list of translated classes is pinned.
    src_defs, src_table, src_skipped = [], [], []
    sd = os.path.join(REPO, "src/InputFunctions/SourceTerms")
    for f in sorted(os.listdir(sd)):
        if not f.endswith(".cpp") or "Culham" in f:
            continue
        for (cls, fn), body in functions_in(os.path.join(sd, f)).items():
            if fn != "rhs_f":
                continue
            try:
                e = parse_body(body)
            except ExtractError as ex:
                src_skipped.append(cls)
                continue
            src_defs.append(f"def {cls}_rhs_f : Expr := {e}")
            src_table.append(cls)
    src_path = os.path.join(os.path.dirname(out_path), "SourceTerms.lean")
    src_lines = ["import GMGModel.Sym", "/-! GENERATED by tools/cxx_expr.py from src/InputFunctions/SourceTerms/*.cpp of /repo's working tree on every check — do not edit.",
                 "   Not translated (outside the expression grammar, pointwise tie only): " + ", ".join(src_skipped) + " -/",
                 "set_option maxRecDepth 100000", "namespace SourceTerms.Gen", "open Sym Sym.Expr", ""] + src_defs + ["",
                 "def table : List (String × Expr) := [" + ", ".join(f'("{c}", {c}_rhs_f)' for c in src_table) + "]", "end SourceTerms.Gen", ""]
    src_new = "\n".join(src_lines)
    src_old = open(src_path).read() if os.path.exists(src_path) else None
    if src_new != src_old:
        open(src_path, "w").write(src_new)
    expected = os.path.join(root, "tools", "source_terms_expected.json")
    if os.path.exists(expected):
        want = json.load(open(expected))
        missing = sorted(set(want) - set(src_table))
        if missing:
            print("EXTRACTION FAILED: source terms that used to be translatable no longer are:", missing, file=sys.stderr)
            sys.exit(2)
    lines = ["import GMGModel.Sym", "/-! GENERATED by tools/cxx_expr.py from /repo's working tree on every check — do not edit. -/",
             "set_option maxRecDepth 100000", "namespace InputFns.Gen", "open Sym Sym.Expr", ""] + defs + ["",
             "def table : List (String × String × Expr) := [" + ", ".join(f'("{c}", "{fn}", {n})' for c, fn, n in table) + "]",
             "end InputFns.Gen", ""]
    new = "\n".join(lines)
    old = open(out_path).read() if os.path.exists(out_path) else None
    if new != old:
        open(out_path, "w").write(new)
    print(json.dumps(dict(functions=len(defs), classes=len({c for c, _, _ in table}), changed=new != old, source_terms_translated=len(src_table),
                          source_terms_pointwise_only=len(src_skipped))))


if __name__ == "__main__":
    main()
