#!/usr/bin/env python3
"""Writes the prompts of a seeding round:  seed_prompts.py <round> <dir>   → <dir>/prompt_Cxx.txt and a scratch worktree <dir>/Cxx per property.
   A prompt contains ONLY the property text (properties.jsonl) and one-line descriptions of the earlier changes of that property
   ("do not repeat") — nothing else from /verif."""
import os, sys, json, subprocess
ROOT = os.path.dirname(os.path.dirname(os.path.abspath(__file__)))
rnd, out = sys.argv[1], os.path.abspath(sys.argv[2])
FLAVOUR = {
 "5": ("THIS TIME prefer the GLUE around the numerical core over the kernels themselves: option parsing and setters, enum / flag conversions, the Level / LevelCache / "
       "GMGPolar wrappers and constructors, object lifetime (copy, move, reset between setup() and solve()), conversions between index orderings, thread-count "
       "plumbing (threads_per_level_, `omp parallel if` clauses, num_threads), tolerance / norm / statistics bookkeeping, default values — the code THROUGH which the "
       "core is reached.  The change must still be a genuine violation of the property as stated, INSIDE its quantifier, and it must need something specific to "
       "manifest (an unusual-but-admissible option value or combination of two options, a size or thread count, an object history, two cooperating sites) — not "
       "something ordinary use with default options would expose at once."),
}
os.makedirs(out, exist_ok=True)
for line in open(os.path.join(ROOT, "properties.jsonl")):
    p = json.loads(line); pid = p["id"]
    prev = []
    for d in sorted(os.listdir(os.path.join(ROOT, "seeded"))):
        mp = os.path.join(ROOT, "seeded", d, "meta.json")
        if d.startswith(pid) and os.path.exists(mp):
            ch = " ".join((json.load(open(mp)).get("change") or "").split())
            if ch: prev.append('"' + ch[:330] + '"')
    wt = os.path.join(out, pid)
    if not os.path.isdir(wt):
        r = subprocess.run(f"git -C /repo worktree add --detach {wt} HEAD", shell=True, capture_output=True, text=True)
        assert r.returncode == 0, r.stderr
    txt = f"""You are helping to evaluate a verification framework for the C++ project SciCompMod/GMGPolar (an OpenMP geometric multigrid solver on polar/curvilinear meshes). Your job is to play the role of a developer who makes a plausible-looking change that silently BREAKS one stated semantic property of the code while everything still compiles and the project's existing test suite still passes.

Your private scratch git worktree of the repository is {wt} (a detached worktree; work ONLY inside it; never read or write /repo or /verif, and do not look at any other directory under {out} or /tmp).

THE PROPERTY ({pid}): {p['title']}
Statement: {p['statement']}
Quantified over: {p['quantifier']['text']}
Why the existing tests cannot settle it: {p['why_tests_cant']}
Files where it is anchored: {', '.join(p['anchors']['files'])}

WHAT TO PRODUCE
1. A small source change (a realistic refactoring, "optimisation", clean-up, generalisation, bug "fix" or off-by-one style edit of the kind that gets through code review; typically 1-25 changed lines, in the library sources under src/ or include/, not in tests) such that
   - the project still compiles (cmake -G Ninja -S . -B _b -DFETCHCONTENT_FULLY_DISCONNECTED=ON -DFETCHCONTENT_SOURCE_DIR_GOOGLETEST=/usr/src/googletest && ninja -C _b   ; the sandbox has no network, these flags make googletest come from /usr/src/googletest),
   - the WHOLE existing test suite still passes with the change (ctest --test-dir _b -j4 --timeout 1800 ; 16 entries - run it, do not guess; other jobs share this machine: if an entry times out under load, re-run it with ctest --rerun-failed before concluding anything),
   - the property above is violated by the changed code.
2. {FLAVOUR[rnd]}
3. It must differ from these earlier changes, do not repeat them: {' ||| '.join(prev)}
4. A demonstration: a small self-contained C++ program demo.cpp (linking against the static libraries built in _b: libGMGPolarLib.a libInputFunctions.a libPolarGrid.a; compile with g++ -std=c++20 -O1 -fopenmp -I<worktree>/include, add -I<worktree>/src if needed) that exits 0 on the UNCHANGED code and non-zero on the CHANGED code, printing what it observed. It must be deterministic enough to be reliable.

DELIVERABLES, all in {wt}/demo/ :
  - patch.diff : output of `git diff` for the source change only (must apply with `git apply` to a clean checkout of HEAD; do not include demo/ or _b/ in it)
  - demo.cpp, and run.sh : `bash demo/run.sh` run from the worktree root builds the library targets if necessary (cmake configure into _b only if _b/build.ninja does not exist, then `ninja -C _b GMGPolarLib InputFunctions PolarGrid`), compiles demo.cpp and runs it; exit status 0 = property holds, non-zero = violated. Use paths relative to the script location (ROOT="$(cd "$(dirname "$0")/.." && pwd)").
  - notes.md : first line "CHANGE: <one sentence>", second line "NEEDS: <what exactly is needed for the violation to manifest>", then a short explanation and the outputs you observed with and without the change, and the ctest summary line you observed with the change.
Before you finish: verify yourself (a) unchanged code: run.sh exits 0; (b) changed code: builds, ctest 100% passed, run.sh exits non-zero. Leave the worktree with the change APPLIED. Keep your final report to a few lines (the change, what it needs, the observed outputs).
"""
    open(os.path.join(out, f"prompt_{pid}.txt"), "w").write(txt)
print("prompts written to", out)
