#!/usr/bin/env python3
"""Fill `change` / `needs_to_manifest` / `produced_by` / `files` of seeded/<id>/meta.json from the agent's notes.md
(first lines `CHANGE: …` and `NEEDS: …`)."""
import os, sys, json, re
ROOT = os.path.dirname(os.path.dirname(os.path.abspath(__file__)))
for sid in sys.argv[1:]:
    d = os.path.join(ROOT, "seeded", sid)
    mp = os.path.join(d, "meta.json")
    meta = json.load(open(mp)) if os.path.exists(mp) else {}
    notes = open(os.path.join(d, "notes.md")).read() if os.path.exists(os.path.join(d, "notes.md")) else ""
    m = re.search(r"^CHANGE:\s*(.+)$", notes, flags=re.M)
    n = re.search(r"^NEEDS:\s*(.+)$", notes, flags=re.M)
    if m: meta["change"] = m.group(1).strip()
    if n: meta["needs_to_manifest"] = n.group(1).strip()
    meta.setdefault("property", sid.split("-")[0])
    meta["produced_by"] = "fresh sub-agent (round %s) given only the property text and its own scratch worktree /tmp/seed%s/%s" % (
        sid.split("-")[1] if "-" in sid else "1", sid.split("-")[1] if "-" in sid else "", sid.split("-")[0])
    meta["files"] = sorted(f for f in os.listdir(d) if f != "meta.json")
    json.dump(meta, open(mp, "w"), indent=1)
    print(sid, "|", meta.get("change", "?")[:100])
