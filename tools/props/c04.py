"""C04 — the coarse direct solve inverts exactly the operator the residual applies."""
LEVEL = "proof"
RULE = ("DirectSolverGiveCustomLU / TakeCustomLU on random problems 5x4 .. 9x16 (quick) / 17x32 (thorough), 1 and 4 assembly threads, "
        "right-hand sides with dynamic range 2^-40..2^40; the exact residual of the returned solution with the model operator must be "
        "<= 2^-20*(|A||x|+|b|) at every node; through the friend hook the assembled CSR matrices are read: no column twice in a row "
        "and every entry equal to the operator's (allowance 2^-40*S); for the take strategy every CSR slot (column and value, storage order) "
        "equals the code-level assembly model GMGModel/DirectCode.lean run with the offset tables re-extracted from the header (exact "
        "rationals + IEEE double bit comparison); for the give strategy every CSR slot equals the code-level scatter model "
        "GMGModel/DirectGiveCode.lean (accumulating stores in the sequential node order, tables DirectGive_* re-extracted from the header): "
        "threads=1 exact rationals AND bit for bit in IEEE double (a slot that is not bit-identical is a disagreement), threads=4 (3-coloured "
        "parallel assembly) column exact and value within 2^-40*S; both strategies return the same solution.  "
        "Distinct by (nr, nt, bc, geometry, profile)")


import os, subprocess, json
ROOT = os.path.dirname(os.path.dirname(os.path.dirname(os.path.abspath(__file__))))


def run(ctx):
    # (T) the offset tables of the operator headers -> lean/Generated/Stencils.lean (input of GMGModel/DirectCode.lean, GMGModel/DirectGiveCode.lean and of the theorems about them)
    r = subprocess.run(["python3", os.path.join(ROOT, "tools", "stencil_extract.py")], capture_output=True, text=True)
    if r.returncode != 0:
        ctx.broken.append(("translator stencil_extract.py: the Stencil tables of the headers no longer have the extractable form", (r.stdout + r.stderr)[-2000:]))
    else:
        ctx.cov["stencil_tables"] = json.loads(r.stdout.strip().splitlines()[-1])
    ctx.prove(extra_modules=["GMGProofs.Props.C04c", "GMGProofs.Props.C04g"])
    h = ctx.build_harness("h_ops")
    ctx.pipe([h, "direct", "24" if ctx.tier == "quick" else "300", "9", "16"], "direct", label="direct-solves")
    if ctx.tier == "thorough":
        ctx.pipe([h, "direct", "10", "17", "32"], "direct", label="direct-solves-17x32")
    # "any thread count used for assembly": the assembly regions must be race-free, otherwise the matrix depends on the schedule
    ctx.schedule_conflicts(("DirectSolverGive", "DirectSolverTake"))
    # the coarse direct solver as the SOLVER reaches it (setup() -> Level::initializeDirectSolver -> Level::directSolveInPlace)
    hs = ctx.build_harness("h_solver")
    ctx.pipe([hs, "levelops", "direct", "16" if ctx.tier == "quick" else "150"], "direct", label="direct-solve-through-the-solver-object")
    ctx.assumptions += ["'pivots != 0 for the assembled matrix in grid order' is a hypothesis of C04.solve_inverts (it follows from C05 by a principal-minor "
                        "argument that is not formalised); the code's own tiny-pivot exit branch is part of the C16 model"]
