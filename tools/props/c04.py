"""C04 — the coarse direct solve inverts exactly the operator the residual applies."""
LEVEL = "proof"
RULE = ("DirectSolverGiveCustomLU / TakeCustomLU on random problems 5x4 .. 9x16 (quick) / 17x32 (thorough), 1 and 4 assembly threads, "
        "right-hand sides with dynamic range 2^-40..2^40; the exact residual of the returned solution with the model operator must be "
        "<= 2^-20*(|A||x|+|b|) at every node; through the friend hook the assembled CSR matrices are read: no column twice in a row "
        "and every entry equal to the operator's (allowance 2^-40*S); both strategies return the same solution.  "
        "Distinct by (nr, nt, bc, geometry, profile)")


def run(ctx):
    ctx.prove()
    h = ctx.build_harness("h_ops")
    ctx.pipe([h, "direct", "24" if ctx.tier == "quick" else "300", "9", "16"], "direct", label="direct-solves")
    if ctx.tier == "thorough":
        ctx.pipe([h, "direct", "10", "17", "32"], "direct", label="direct-solves-17x32")
    ctx.assumptions += ["'pivots != 0 for the assembled matrix in grid order' is a hypothesis of C04.solve_inverts (it follows from C05 by a principal-minor "
                        "argument that is not formalised); the code's own tiny-pivot exit branch is part of the C16 model"]
