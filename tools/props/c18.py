"""C18 — generated grids are valid, nested, coarsenable; files round-trip."""
LEVEL = "proof"
RULE = ("cross product (thinned at random in the quick tier) of R0 in {1e-5, 0.1} x nr_exp 2..8 x ntheta_exp {-1,2,3,5} x "
        "anisotropic_factor 0..5 x divideBy2 0..2 x nine refinement radii (0 = command-line default, R0, two radii close to R0, "
        "0.66, 0.7081*Rmax, 1.29, Rmax, 2.0); every construction runs in a child process with the PolarGrid sources compiled into "
        "the harness under ASan + UBSan + float-cast-overflow, so an out-of-bounds access is an observable outcome; outcome class "
        "(grid / exception / abort), sizes and all radii are compared with GridGen.generate in exact rationals; oracle on every "
        "produced grid: strictly increasing from exactly R0 to exactly Rmax, odd nodes are midpoints, uniform angles, coarsenable; "
        "file write/load round trip at precision 16/17/18 and seven malformed-file cases.  Distinct by (nr_exp, aniso, div, outcome)")


def run(ctx):
    ctx.prove()
    import subprocess, os
    from verif import BUILD, REPO, ROOT, BrokenObligation
    out = os.path.join(BUILD, "harness-asan-unity")
    os.makedirs(out, exist_ok=True)
    exe = os.path.join(out, "h_gridgen")
    r = subprocess.run(["g++", "-std=c++20", "-O1", "-g", "-fopenmp", "-DNDEBUG", "-fsanitize=address,undefined,float-cast-overflow",
                        "-fno-sanitize-recover=all", f"-I{REPO}/include", f"-I{REPO}/src", f"-I{ROOT}/harness",
                        os.path.join(ROOT, "harness", "h_gridgen.cpp"), "-o", exe + ".tmp"], capture_output=True, text=True)
    if r.returncode != 0:
        raise BrokenObligation("harness-build:h_gridgen", r.stderr[-3000:])
    os.replace(exe + ".tmp", exe)
    env = {"ASAN_OPTIONS": "detect_leaks=0"}
    ctx.pipe([exe, "gen", "12" if ctx.tier == "quick" else "1"], "gridgen", env=env, label="parametric-constructor")
    hs = ctx.build_harness("h_solver")
    ctx.pipe([hs, "levels", "300" if ctx.tier == "quick" else "1100"], "options", label="chooseNumberOfLevels-all-sizes")
    ctx.pipe([exe, "files", "12" if ctx.tier == "quick" else "120"], "gridgen", env=env, label="file-round-trip")
    for lab, args in (("parametric-constructor", ["gen", "12" if ctx.tier == "quick" else "1"]), ("file-round-trip", ["files", "12" if ctx.tier == "quick" else "120"])):
        if any(b[0].startswith("harness " + lab) for b in ctx.broken):
            ctx.crash_probe([exe, *args], lab + "-crash", start_re=r"^(GEN|FILECASE|BADFILE)\b", env=env)
    ctx.assumptions += ["values are exact rationals in the model; the C++ computes them in double (compared within 2^-40*Rmax)",
                        "iostream formatting is exercised (round trip), not modelled",
                        "files written with fewer than 16 digits are rejected by the loader's own validity checks (last angle = 2*pi and antipodal "
                        "partners within 1e3*eps): a clean exception, observed for precision 6 and 12, not counted as a round-trip failure"]
