"""C12 — results are reproducible and do not depend on the thread count."""
LEVEL = "proof"
RULE = ("every operator (residual, smoother, extrapolated smoother, direct solve — give and take —, prolongation, restriction, FMG "
        "interpolation) on random problems at threads 1,2,3,4,7,16,32 with three repeats each: bit-identical across repeats and across "
        "all thread counts >= 2, identical to one thread for the owner-computes kernels, within re-association for the scatter "
        "kernels; vector kernels at n = 9999, 10000, 10001, 65536 (below and above the parallelisation threshold) against their exact "
        "value computed in rationals; the solution after 8 cycles of whole solves at threads 1,2,4,7 with thread reduction factors 1 "
        "and 0.5.  Distinct by (operator, size) and solve configuration")


def run(ctx):
    import subprocess, os
    from verif import ROOT
    subprocess.run(["python3", os.path.join(ROOT, "tools", "omp_extract.py")], capture_output=True, text=True)
    subprocess.run(["python3", os.path.join(ROOT, "tools", "omp_owner.py")], capture_output=True, text=True)
    ctx.prove(extra_modules=("GMGProofs.Props.C12o",))
    h = ctx.build_harness("h_par")
    if ctx.tier == "quick":
        # the three residues of ntheta mod 3 are three different ladders of the 3-colour scatter schedules
        ctx.pipe([h, "ops", "2", "17", "32"], "par", label="operators")
        ctx.pipe([h, "ops", "2", "13", "24"], "par", label="operators-ntheta-div-3")
        ctx.pipe([h, "ops", "1", "9", "16"], "par", label="operators-ntheta-1-mod-3")
        ctx.pipe([h, "vec"], "par", label="vector-kernels")
        ctx.pipe([h, "solve", "6"], "par", label="solves")
        ctx.pipe([h, "resid", "12"], "par", label="residual-all-small-shapes")
        # transfers above the 10 000-node threshold (the optimised loops fork there), non-uniform angles, threads 1,2,3,4,7
        ho = ctx.build_harness("h_ops")
        ctx.pipe([ho, "transfer", "1", "17", "32"], "transfer", label="transfers-above-threshold")
    else:
        ctx.pipe([h, "ops", "20", "17", "32"], "par", label="operators")
        ctx.pipe([h, "ops", "10", "13", "24"], "par", label="operators-ntheta-div-3")
        ctx.pipe([h, "ops", "6", "9", "16"], "par", label="operators-ntheta-1-mod-3")
        ctx.pipe([h, "ops", "3", "33", "48"], "par", label="operators-33x48")
        ctx.pipe([h, "ops", "3", "65", "256"], "par", label="operators-above-threshold")
        ctx.pipe([h, "vec"], "par", label="vector-kernels")
        ctx.pipe([h, "solve", "30"], "par", label="solves")
        ho = ctx.build_harness("h_ops")
        ctx.pipe([ho, "transfer", "100", "17", "32"], "transfer", label="transfers-above-threshold")
    ctx.assumptions += ["OpenMP reductions combine partial sums in arrival order: norms are not bit-reproducible by specification and are only compared "
                        "to rounding (C12.reduce_chunks is the exact-arithmetic statement)",
                        "in COMBINED mode the smoother switch depends on a norm ratio; the solves of this check disable the tolerances so that no norm is evaluated",
                        "owner-computes regions (transfers, caches, rhs, vector kernels …): C12o.owner_regions_deterministic — any order of the work items of loops "
                        "that no barrier separates gives the same memory, for every value type, provided each iteration respects its own-cell footprint "
                        "(which the translator omp_owner.py checks syntactically)",
                        "determinism theorem: C12.generated_regions_deterministic (any order of the work items of a barrier interval gives the same memory, "
                        "for every value type) rests on C11 and on the assumption that a race-free OpenMP program is serialisable"]
