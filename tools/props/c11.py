"""C11 — no data race in any parallel region, for any thread count or schedule."""
LEVEL = "proof"
RULE = ("(T2) tools/omp_owner.py regenerates lean/Generated/Owner.lean (+ OwnerSep.lean with one omega-proved separation lemma per region) from the 36 "
        "other parallel regions, which must be in owner-computes form (pinned list tools/owner_expected.json); C11o.owner_regions_race_free covers them for every shape.  "
        "(T) tools/omp_extract.py regenerates lean/Generated/Sched.lean from the C++ of twelve kernel-dispatch parallel regions "
        "(residual give/take, four smoothers, both direct-solver assemblies, four smoother-matrix assemblies: 72 work-sharing loops) "
        "on every run; the theorems of Props/C11.lean unfold these generated terms, so a changed stride / start / nowait / barrier "
        "changes the term and the proof no longer checks; (F) the hand-written kernel footprints the theorems quantify over are compared with the "
        "cells the real kernels write / read (harness h_foot, one call per kernel x line x colour); then the regenerated executable schedule is searched for a concrete "
        "conflicting pair of iterations on all small admissible shapes (every residue class of nc mod 2,3,4 and ntheta mod 3,4).  "
        "The thorough tier additionally runs the operators and a whole setup()+solve() under ThreadSanitizer + Archer.  "
        "Distinct by (region, shape)")


def run(ctx):
    import subprocess, os, json
    from verif import ROOT, BrokenObligation
    r = subprocess.run(["python3", os.path.join(ROOT, "tools", "omp_extract.py")], capture_output=True, text=True)
    if r.returncode != 0:
        ctx.broken.append(("translator omp_extract.py: the parallel regions no longer have the extractable form", (r.stdout + r.stderr)[-2000:]))
    else:
        ctx.cov["translator"] = json.loads(r.stdout.strip().splitlines()[-1])
        gen = json.load(open(os.path.join(ROOT, "lean", "Generated", "Sched.json")))
        ctx.cov["regions_modelled"] = [x["function"] for x in gen["regions"]]
        ctx.cov["parallel_regions_not_in_the_schedule_model"] = len(gen["not_modelled"])
        ctx.cov["reduction_clauses"] = gen["reductions"]
        # every shared scalar accumulated in a parallel vector kernel must sit in a reduction clause
        for f in gen["reductions"]:
            if f["parallel"] and f["fn"] in ("dot_product", "l1_norm", "l2_norm_squared", "infinity_norm") and not f["reduction"]:
                ctx.failing.append({"stage": "translator", "what": f"ORACLE C11 {f['fn']}: the accumulator of the parallel loop is not in a reduction clause", "seed": ctx.seed})
    # second translator: every other `#pragma omp parallel` region must be in owner-computes form (Generated/Owner.lean + OwnerSep.lean)
    r2 = subprocess.run(["python3", os.path.join(ROOT, "tools", "omp_owner.py")], capture_output=True, text=True)
    try:
        info = json.loads(r2.stdout.strip().splitlines()[-1])
    except Exception:
        info = None
    if info is None or r2.returncode not in (0, 3):
        ctx.broken.append(("translator omp_owner.py failed", (r2.stdout + r2.stderr)[-2000:]))
    else:
        ctx.cov["owner_translator"] = info
        og = json.load(open(os.path.join(ROOT, "lean", "Generated", "Owner.json")))
        ctx.cov["owner_regions_modelled"] = [x["id"] for x in og["regions"]]
        ctx.cov["parallel_regions_in_no_model"] = [dict(id=x["id"], reason=x["reason"]) for x in og["rejected"]]
        if info["missing_expected"]:
            why = {x["id"]: x["reason"] for x in og["rejected"]}
            ctx.broken.append(("translator omp_owner.py: parallel regions left the owner-computes form: " + ", ".join(info["missing_expected"]),
                               "\n".join(f"{k}: {why.get(k, 'region no longer present')}" for k in info["missing_expected"])))
    translator_failed = any(b[0].startswith("translator omp_extract.py") for b in ctx.broken)
    # a work vector declared before `#pragma omp parallel` and used inside is shared by the team (C11.private_scratch states that the
    # line-solver workspaces are declared inside); the concrete schedule on which that matters is searched on the implementation below
    shared_ws = []
    if not translator_failed:
        shared_ws = [(x["function"], x.get("shared_locals", [])) for x in gen["regions"] if x.get("shared_locals")]
        if shared_ws:
            ctx.broken.append(("translator omp_extract.py: work vectors declared outside the parallel region are used inside it (shared by all threads)",
                               "; ".join(f"{f}: {', '.join(v)}" for f, v in shared_ws)))
    ctx.prove(extra_modules=("GMGProofs.Props.C11o",))
    # dynamic search on the implementation (always cheap; the only search left when the regions no longer have the extractable form):
    # a race between two iterations of one phase shows as run-to-run / thread-count dependence of the operator's output
    ctx.also_props = ("C12",)
    hp = ctx.build_harness("h_par")
    ctx.pipe([hp, "resid", "40" if (translator_failed or ctx.tier != "quick") else "12"], "par", label="residual-race-probe")
    owner_left = any(b[0].startswith("translator omp_owner.py: parallel regions left") for b in ctx.broken)
    if owner_left:
        # a region outside the kernel-dispatch family changed shape (solver.cpp: exact error, norms; transfers; rhs): whole solves at four
        # threads — a race there shows as a reported figure that differs from its serial recomputation (oracle of C20) or as a
        # thread-count dependent result (oracle of C12)
        ctx.also_props = ("C12", "C20")
        hs = ctx.build_harness("h_solver")
        ctx.pipe([hs, "solve", "40", "4"], "trace", label="solve-race-probe")
        ctx.pipe([hp, "solve", "4"], "par", label="solve-thread-count-probe")
        ctx.also_props = ("C12",)
    if translator_failed or shared_ws:
        ctx.pipe([hp, "ops", "2", "13", "24"], "par", label="operator-race-probe")
        if not ctx.failing:
            tsan(ctx)
    ctx.also_props = ()
    # search of the regenerated schedule for a concrete conflict (also the replay when the proof breaks)
    bounds = ("10", "20") if ctx.tier == "quick" else ("14", "28")
    ctx.pipe(["true"], f"sched {bounds[0]} {bounds[1]}", label="schedule-search")
    ctx.pipe(["true"], "owner 8 16" if ctx.tier == "quick" else "owner 14 32", label="owner-regions-search")
    # footprint tie: every kernel of the twelve regions (vector kernels and matrix assemblies) is called once per line and colour on the real
    # classes; observed writes / reads must lie inside the model's footprints, and the generated schedule is searched for a
    # conflict on the OBSERVED footprints
    h = ctx.build_harness("h_foot")
    ctx.pipe([h, "4" if ctx.tier == "quick" else "24"], "foot", label="footprints")
    if ctx.tier == "thorough":
        tsan(ctx)
    ctx.assumptions += ["the OpenMP runtime and memory model are trusted: a program without data races behaves as some interleaving of its iterations; "
                        "schedule(static) default; barrier at the end of every `omp for` without nowait",
                        "kernel footprints (which rows / lines a kernel call touches) are hand-written (GMGModel/Sched.lean); for all 12 region "
                        "classes they are checked against the real member functions on every run (h_foot: one call per kernel x line x colour on random "
                        "backgrounds, written cells by change detection, read cells by single-cell perturbation; observed ⊆ model); a write that stores "
                        "the value already present on both random backgrounds would go unobserved",
                        "the 36 other parallel regions (transfers, injection, FMG interpolation, level caches, rhs, exact error, extrapolated residual, vector "
                        "kernels, reductions, container loops) are modelled by the syntactic owner-computes analysis of tools/omp_owner.py: what is trusted there is "
                        "the translator's recognition of stores (`A[idx] op=`; a stored array may not occur unsubscripted, no reference may be bound to an element) "
                        "and that calls inside a loop body do not write shared arrays they are not handed; ThreadSanitizer (thorough tier) is the dynamic check of that"]


def tsan(ctx):
    import subprocess, os, re
    h = ctx.build_harness("h_par", variant="tsan")
    env = dict(os.environ, OMP_TOOL_LIBRARIES="/usr/lib/llvm-14/lib/libarcher.so", OMP_NUM_THREADS="4", VERIF_SEED=str(ctx.seed),
               TSAN_OPTIONS="halt_on_error=0 report_signal_unsafe=0")
    reports = 0
    runtime_internal = 0
    for args in (["ops", "2", "17", "32"], ["solve", "2"]):
        r = subprocess.run([h, *args], env=env, capture_output=True, text=True)
        # libomp itself is not instrumented: its own mutexes show up as "races" between pthread_mutex_init and
        # pthread_mutex_lock called from libomp.so (both access stacks have libomp.so in frames #0/#1).  Such reports are
        # runtime internals; a report counts when at least one of the two racing accesses is made by compiled user code
        # (/repo or the harness) and not from inside libomp.  [first filter "any frame in /repo" was a false alarm, DESIGN R.5]
        for blk in r.stderr.split("WARNING: ThreadSanitizer: data race")[1:]:
            body = blk.split("SUMMARY")[0]
            sections = [x for x in re.split(r"\n\s*\n", body) if re.search(r"#0 ", x)]
            access = sections[:2]
            def internal(sec):
                frames = [l for l in sec.splitlines() if re.match(r"\s*#[01] ", l)]
                return any("libomp.so" in l for l in frames)
            if access and all(internal(a) for a in access):
                runtime_internal += 1
                continue
            if "/repo/" in body or "/verif/harness" in body:
                reports += 1
                ctx.failing.append({"stage": "tsan " + " ".join(args), "what": "ORACLE C11 ThreadSanitizer data race: " + re.sub(r"\s+", " ", blk[:600]), "seed": ctx.seed})
    ctx.cov["tsan_reports_in_repo_frames"] = reports
    ctx.cov["tsan_reports_inside_libomp_discarded"] = runtime_internal
