"""C07 — extrapolated smoothing relaxes fine-only nodes and never moves coarse nodes."""
LEVEL = "proof"
RULE = ("one sweep of ExtrapolatedSmootherGive / Take (1 and 4 threads, garbage scratch vector) on random finest-level problems with "
        "at least three circles and three radial nodes (nr 7..13, nt in {4,8,12,16}, explicit splits for both parities); coarse "
        "nodes are compared BITWISE with the input, every other node must satisfy its sweep equation within 2^-30*S; both strategies "
        "and thread counts agree.  Code level: every stored entry of every line matrix of both classes, temp = rhs - A_sc^ortho x and "
        "the sweep against GMGModel/ExSmootherCode.lean (take: bit for bit in double); for the give strategy additionally against the "
        "scatter model GMGModel/ExSmootherGiveCode.lean (accumulating stores in the sequential node order, scatter kernels, sequential "
        "sweep; offset tables re-extracted from the header): threads=1 every stored entry and every temp value after the four scatter "
        "phases bit for bit in IEEE double (an entry that is not bit-identical is a disagreement) and within 2^-40*S of the exact "
        "rational run, threads=4 (3-coloured parallel assembly) within 2^-40*S, sweep result against the scatter model's sweep "
        "(double and rationals), coarse nodes of the model sweep bit-identical to the input.  Distinct by (nr, nt, nc, bc, geometry, profile)")


def run(ctx):
    ctx.prove(extra_modules=["GMGProofs.Props.C07c", "GMGProofs.Props.C07g"])
    h = ctx.build_harness("h_ops")
    ctx.pipe([h, "exsmooth", "60" if ctx.tier == "quick" else "1200", "13", "16"], "smooth", label="extrapolated-sweeps")
    # code-level models: GMGModel/ExSmootherCode.lean (take: stored line matrices (tridiagonal / diagonal / CSR), temp = rhs - A_sc^ortho x,
    # one sweep; bit for bit against the model evaluated in double) and GMGModel/ExSmootherGiveCode.lean (give: scatter assembly in the
    # sequential node order, scatter kernels temp[..] -= .., sequential sweep; threads=1 bit for bit in double)
    quick = ctx.tier == "quick"
    hc = ctx.build_harness("h_smcode")
    ctx.pipe([hc, "exsmooth", "30" if quick else "400", "13", "16"], "exsmcode", label="ex-smoother-code-level")
    # the parallel regions of these operators must be race-free, otherwise the result depends on the schedule
    ctx.schedule_conflicts(("ExtrapolatedSmootherGive", "ExtrapolatedSmootherTake"))
    # the extrapolated smoother as the SOLVER reaches it (setup() -> Level::initializeExtrapolatedSmoothing -> Level::extrapolatedSmoothing)
    hs = ctx.build_harness("h_solver")
    ctx.pipe([hs, "levelops", "smooth", "24" if ctx.tier == "quick" else "200"], "smooth", label="smoothing-through-the-solver-object")
    ctx.assumptions += ["spec-level theorems C07.*: see C06; code-level theorems C07c.* are about GMGModel/ExSmootherCode.lean, tied to "
                        "ExtrapolatedSmootherTake by the stage ex-smoother-code-level (stored entries and temp bit for bit in double)",
                        "code-level theorems C07g.* are about GMGModel/ExSmootherGiveCode.lean (scatter assembly, scatter kernels, sequential sweep), tied to "
                        "the single-threaded ExtrapolatedSmootherGive by the same stage (stored entries and temp after the four scatter phases bit for bit in "
                        "double); the 3-coloured multi-threaded assembly / the For-loop parallel sweep apply the same stores in another order and are tied "
                        "within 2^-40*S only (their schedule is C11/C12's subject).  C07g.exgive_sweep_eq_take_sweep: for admissible shapes (header tables, "
                        "nc >= 3, nc + 3 <= nr, nr odd, nt even >= 4; across the origin nt % 4 = 0 and antipodally symmetric angular spacing) the modelled "
                        "give sweep returns exactly the modelled take sweep, so every C07c theorem transfers (C07g.exgive_code_sweep_isExSweep)",
                        "bitwise invariance of coarse nodes is observed on the implementation; C07c.code_exsweep_coarse_fixed proves exact "
                        "equality for the code-level model over any field (nr odd, nt even >= 4, nc >= 2, nc + 3 <= nr, exact line solves)"]
