"""C07 — extrapolated smoothing relaxes fine-only nodes and never moves coarse nodes."""
LEVEL = "proof"
RULE = ("one sweep of ExtrapolatedSmootherGive / Take (1 and 4 threads, garbage scratch vector) on random finest-level problems with "
        "at least three circles and three radial nodes (nr 7..13, nt in {4,8,12,16}, explicit splits for both parities); coarse "
        "nodes are compared BITWISE with the input, every other node must satisfy its sweep equation within 2^-30*S; both strategies "
        "and thread counts agree.  Distinct by (nr, nt, nc, bc, geometry, profile)")


def run(ctx):
    ctx.prove(extra_modules=["GMGProofs.Props.C07c"])
    h = ctx.build_harness("h_ops")
    ctx.pipe([h, "exsmooth", "60" if ctx.tier == "quick" else "1200", "13", "16"], "smooth", label="extrapolated-sweeps")
    # code-level model (GMGModel/ExSmootherCode.lean): stored line matrices (tridiagonal / diagonal / CSR), temp = rhs - A_sc^ortho x,
    # one sweep; take strategy bit for bit against the model evaluated in double
    quick = ctx.tier == "quick"
    hc = ctx.build_harness("h_smcode")
    ctx.pipe([hc, "exsmooth", "30" if quick else "400", "13", "16"], "exsmcode", label="ex-smoother-code-level")
    # the parallel regions of these operators must be race-free, otherwise the result depends on the schedule
    ctx.schedule_conflicts(("ExtrapolatedSmootherGive", "ExtrapolatedSmootherTake"))
    ctx.assumptions += ["spec-level theorems C07.*: see C06; code-level theorems C07c.* are about GMGModel/ExSmootherCode.lean, tied to "
                        "ExtrapolatedSmootherTake by the stage ex-smoother-code-level (stored entries and temp bit for bit in double)",
                        "bitwise invariance of coarse nodes is observed on the implementation; C07c.code_exsweep_coarse_fixed proves exact "
                        "equality for the code-level model over any field (nr odd, nt even >= 4, nc >= 2, nc + 3 <= nr, exact line solves)"]
