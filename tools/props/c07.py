"""C07 — extrapolated smoothing relaxes fine-only nodes and never moves coarse nodes."""
LEVEL = "proof"
RULE = ("one sweep of ExtrapolatedSmootherGive / Take (1 and 4 threads, garbage scratch vector) on random finest-level problems with "
        "at least three circles and three radial nodes (nr 7..13, nt in {4,8,12,16}, explicit splits for both parities); coarse "
        "nodes are compared BITWISE with the input, every other node must satisfy its sweep equation within 2^-30*S; both strategies "
        "and thread counts agree.  Distinct by (nr, nt, nc, bc, geometry, profile)")


def run(ctx):
    ctx.prove()
    h = ctx.build_harness("h_ops")
    ctx.pipe([h, "exsmooth", "60" if ctx.tier == "quick" else "1200", "13", "16"], "smooth", label="extrapolated-sweeps")
    ctx.assumptions += ["spec-level model, see C06", "bitwise invariance of coarse nodes is observed on the implementation (the theorem C07.coarse_fixed is about the spec)"]
