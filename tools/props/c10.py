"""C10 — each multigrid cycle is a consistent correction scheme."""
LEVEL = "proof"
RULE = ("one private cycle per (kind V/W/F) x (plain / extrapolated) x (2..5 levels) with random pre/post smoothing counts 0..2, "
        "random geometry / profile / boundary mode / strategy / thread count, run on the real GMGPolar object through the "
        "GMGPolarVerif friend with every scratch vector filled with garbage; the logged instruction trace must equal the model "
        "program token for token; numeric oracles on the implementation: right-hand side untouched, a cycle started from the exact "
        "discrete solution returns it, two levels without smoothing equal u + P A_c^-1 R (f - A u) (plain) and the extrapolated "
        "combination built from the public operators, and every cycle against the textbook correction scheme composed from the public "
        "operators; the WHOLE cycle executed inside the model (control-flow IR over the code-level models, IEEE double; exact rationals "
        "for the smallest cases) against the real cycle on 2- and 3-level hierarchies.  Distinct by (kind, extrap, L, nu1, nu2, fgs)")


def run(ctx):
    # C10d: the same at ANY depth L >= 2, and for the implicitly extrapolated cycle with either level-0 smoother (uniqueness and totality of the
    # extrapolated sweep in Dirichlet mode proved on the way)
    # C10c: the strict interpreter the driver runs is `Cycle.exec`; the exact discrete solution is a fixed point of the CONCRETE two-level
    # cycle (assembled line matrices, LDL^T line solves, sparse LU, bilinear transfers) — C10 instantiated with the code-level models
    ctx.prove(extra_modules=["GMGProofs.Props.C10c", "GMGProofs.Props.C10d", "GMGProofs.Props.C10e", "GMGProofs.Props.C10g", "GMGProofs.Props.C10h", "GMGProofs.Props.C10i", "GMGProofs.Props.C10f", "GMGProofs.Props.C10j"])
    h = ctx.build_harness("h_solver")
    ctx.pipe([h, "cycle", "2" if ctx.tier == "quick" else "12"], "trace", label="cycle-traces")
    # the whole cycle inside the model (GMGModel/Concrete.lean: the control-flow IR interpreted over the code-level models of
    # smoothers, residual, transfers, direct solver) against the real private cycle on 2- and 3-level hierarchies
    ctx.pipe([h, "concrete", "9" if ctx.tier == "quick" else "60"], "concrete", label="whole-cycle-in-the-model")
    ctx.assumptions += ["numerical behaviour of each instruction is tied separately (C03 residual, C04 direct solve, C06/C07 smoothers, C08 transfers) and, composed, by the whole-cycle stage"]
