"""C10 — each multigrid cycle is a consistent correction scheme."""
LEVEL = "proof"
RULE = ("one private cycle per (kind V/W/F) x (plain / extrapolated) x (2..5 levels) with random pre/post smoothing counts 0..2, "
        "random geometry / profile / boundary mode / strategy / thread count, run on the real GMGPolar object through the "
        "GMGPolarVerif friend with every scratch vector filled with garbage; the logged instruction trace must equal the model "
        "program token for token; numeric oracles on the implementation: right-hand side untouched, a cycle started from the exact "
        "discrete solution returns it, two levels without smoothing equal u + P A_c^-1 R (f - A u) (plain) and the extrapolated "
        "combination built from the public operators.  Distinct by (kind, extrap, L, nu1, nu2, fgs)")


def run(ctx):
    ctx.prove()
    h = ctx.build_harness("h_solver")
    ctx.pipe([h, "cycle", "2" if ctx.tier == "quick" else "12"], "trace", label="cycle-traces")
    ctx.assumptions += ["numerical behaviour of each instruction is tied separately (C03 residual, C04 direct solve, C06/C07 smoothers, C08 transfers)"]
