"""C08 — grid transfer: R = P^T, optimised = reference, copy, convexity, linear reproduction."""
LEVEL = "proof"
RULE = ("fine/coarse level pairs built by the repository's coarsening from random admissible grids (nrF 9..max odd, ntF 8..max "
        "multiple of 4, uniform/geometric/jittered radii with and without midpoint structure, jittered antipodal angles, explicit "
        "and automatic splits on either level), all ten transfer entry points at 1 and 4 threads on random / power-of-two / "
        "one-hot vectors; exact rational model with allowance 2^-40*S; oracles on the implementation: <Px,y>=<x,Ry> (both "
        "pairs, optimised and reference), coarse values copied bit for bit, no new extrema, optimised = reference, linear "
        "reproduction.  Distinct by (nrF, ntF, split pair, midpoint structure)")


def run(ctx):
    # C08b: adjointness and convexity for the pairs of the hierarchy setup() builds (Build.pairOf), positivity only on the index range
    ctx.prove(extra_modules=["GMGProofs.Props.C08b"])
    h = ctx.build_harness("h_ops")
    if ctx.tier == "quick":
        ctx.pipe([h, "transfer", "60", "17", "32"], "transfer")
    else:
        ctx.pipe([h, "transfer", "600", "33", "64"], "transfer", label="transfer-small")
        ctx.pipe([h, "transfer", "12", "65", "256"], "transfer", label="transfer-parallel-branch")  # > 10 000 nodes
    ctx.assumptions += ["theorems over an arbitrary field; rounding covered by the allowance 2^-40 * (sum of term magnitudes)",
                        "linear reproduction is proved under the midpoint hypothesis (C18); its failure elsewhere is known finding F5"]
