"""C03 — one discrete operator: give, take, cached, uncached, any level."""
LEVEL = "proof"
RULE = ("random problems (3 geometries with parameters in their valid ranges x 7 coefficient profiles x both boundary modes, R0 from "
        "1e-8 to 0.3, uniform/geometric/jittered radii, jittered antipodal angles, explicit and automatic splits), level chains of "
        "depth <= 3 with inherited coefficient caches, all four cache-flag pairs for give, take with both caches, 1 and 4 threads, "
        "random / power-of-two / one-hot vectors.  The Jacobian entries and profile values at the LEVEL'S OWN nodes are the model's "
        "input, so compute_jacobian_elements and the cache inheritance are inside the comparison.  Exact rational `Stencil.take` with "
        "allowance 2^-40*S (S = sum of term magnitudes); model give = model take re-checked at run time; oracle on the implementation: "
        "all strategies / cache variants / thread counts agree on identical inputs.  Level caches: every array (sin, cos, alpha, beta, arr, att, "
        "art, detDF; library node numbering) of every level of chains of depth <= 3 under the four flag pairs, bit for bit against the "
        "code-level model GMGModel/Cache.lean run in double; model obtainValues = direct evaluation on every node.  Distinct by (nr, nt, bc, geometry, profile)")


def run(ctx):
    ctx.prove(extra_modules=["GMGProofs.Props.C03c", "GMGProofs.Props.C10g", "GMGProofs.Props.C10i"])  # C10g: give = take for WHOLE cycles (composition of C03, C04g, C06g, C07g)
    h = ctx.build_harness("h_ops")
    if ctx.tier == "quick":
        ctx.pipe([h, "residual", "25", "17", "32"], "residual")
    else:
        ctx.pipe([h, "residual", "300", "17", "32"], "residual", label="residual-small")
        ctx.pipe([h, "residual", "12", "65", "128"], "residual", label="residual-large")
    # code-level model of both LevelCache constructors (GMGModel/Cache.lean): every cache array of every level of a chain, all four flag pairs
    ctx.pipe([h, "cache", "20" if ctx.tier == "quick" else "200", "17", "32"], "cache", label="level-caches")
    # the parallel regions of these operators must be race-free, otherwise the result depends on the schedule
    ctx.schedule_conflicts(("ResidualGive", "ResidualTake"))
    # the residual operators as the SOLVER reaches them (setup() -> Level::initializeResidual -> Level::computeResidual), with the option
    # values the solver object holds: the glue between the options and the operator constructors
    hs = ctx.build_harness("h_solver")
    ctx.pipe([hs, "levelops", "residual", "16" if ctx.tier == "quick" else "150"], "residual", label="residual-through-the-solver-object")
    ctx.assumptions += ["theorem give = take needs antipodally symmetric angular spacing across the origin (C03.hk_needed shows it is necessary); "
                        "grids accepted by the constructor have it up to rounding", "rounding is covered by the allowance, not proved"]
