"""C03 — one discrete operator: give, take, cached, uncached, any level."""
LEVEL = "proof"
RULE = ("random problems (3 geometries with parameters in their valid ranges x 7 coefficient profiles x both boundary modes, R0 from "
        "1e-8 to 0.3, uniform/geometric/jittered radii, jittered antipodal angles, explicit and automatic splits), level chains of "
        "depth <= 3 with inherited coefficient caches, all four cache-flag pairs for give, take with both caches, 1 and 4 threads, "
        "random / power-of-two / one-hot vectors.  The Jacobian entries and profile values at the LEVEL'S OWN nodes are the model's "
        "input, so compute_jacobian_elements and the cache inheritance are inside the comparison.  Exact rational `Stencil.take` with "
        "allowance 2^-40*S (S = sum of term magnitudes); model give = model take re-checked at run time; oracle on the implementation: "
        "all strategies / cache variants / thread counts agree on identical inputs.  Distinct by (nr, nt, bc, geometry, profile)")


def run(ctx):
    ctx.prove()
    h = ctx.build_harness("h_ops")
    if ctx.tier == "quick":
        ctx.pipe([h, "residual", "25", "17", "32"], "residual")
    else:
        ctx.pipe([h, "residual", "300", "17", "32"], "residual", label="residual-small")
        ctx.pipe([h, "residual", "12", "65", "128"], "residual", label="residual-large")
    ctx.assumptions += ["theorem give = take needs antipodally symmetric angular spacing across the origin (C03.hk_needed shows it is necessary); "
                        "grids accepted by the constructor have it up to rounding", "rounding is covered by the allowance, not proved"]
