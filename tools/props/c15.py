"""C15 — copy / move special members of Vector, COO, CSR, DiagonalSolver, SymmetricTridiagonalSolver, SparseLUSolver."""
LEVEL = "proof"
RULE = ("random histories (12-16 operations, four slots of one class) over {construct, set entries, solve, copy-construct, "
        "copy-assign (equal and different sizes, onto and from empty objects), move-construct, move-assign, flag changes} on the "
        "real classes; after every operation all public observables of all slots (sizes, entries, flags, factorised state via "
        "operator<<, solve results, storage sharing) are compared with the field-by-field model run in IEEE double; oracle on "
        "the implementation alone: a copy equals its source, a move target equals the source before the move, other slots are "
        "untouched, no two live objects share storage.  Distinct by (class, operation kind)")


def run(ctx):
    ctx.prove()
    h = ctx.build_harness("h_linalg", libs=())
    n, ln = ("2500", "14") if ctx.tier == "quick" else ("60000", "16")
    s, _, _, _ = ctx.pipe([h, "objects", n, ln], "objects")
    if any(b[0].startswith("harness objects exited") for b in ctx.broken):
        # the real classes crashed inside a history: name the history and the operation
        ctx.crash_probe([h, "objects", n, ln], "objects-crash", start_re=r"^H\b")
    ctx.cov["input_distribution"]["objects"]["target"] = "copy-after-solve for the tridiagonal solver in >= 20% of its copies"
    if ctx.tier == "thorough":
        ha = ctx.build_harness("h_linalg", variant="asan", libs=())
        ctx.pipe([ha, "objects", "6000", "16"], "objects", label="objects-asan-ubsan")
    ctx.assumptions += ["SparseLUSolver's members are std::vectors (compiler-generated element copies); it is observed through solves only",
                        "self-move-assignment is outside the property's operation alphabet and is not generated"]
