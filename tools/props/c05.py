"""C05 — the interior operator is symmetric positive definite."""
LEVEL = "proof"
RULE = ("the operator read off the real ResidualGive / ResidualTake with one-hot vectors on small random problems (nr 5..7, nt 4..8, "
        "all geometries / profiles / both boundary modes): every entry against the exact model operator (allowance 2^-40*S), symmetry "
        "of the implementation's matrix on the non-Dirichlet unknowns, and an exact rational LDL^T of its symmetrised interior block "
        "(all pivots must be positive); the line matrices the real smoothers store against the code-level model (C06d: SPD) with an exact "
        "LDL^T of the stored entries.  Distinct by (nr, nt, bc, geometry, profile)")


def run(ctx):
    # C06d: "the line blocks the smoothers factorise inherit both properties" for the matrices the code-level smoother model stores
    ctx.prove(extra_modules=["GMGProofs.Props.C06d", "GMGProofs.Props.C05b"])
    h = ctx.build_harness("h_ops")
    if ctx.tier == "quick":
        ctx.pipe([h, "matrix", "24", "7", "12"], "matrix")
    else:
        ctx.pipe([h, "matrix", "200", "7", "12"], "matrix", label="matrix-small")
        ctx.pipe([h, "matrix", "20", "9", "12"], "matrix", label="matrix-9x12")
    # "the line blocks the smoothers factorise inherit both properties": every line matrix the REAL SmootherTake / SmootherGive objects
    # store (dumped through the friend hook) against the code-level model whose matrices C06d proves SPD, entry by entry; oracle on the
    # implementation: exact LDL^T of the stored (cyclic) tridiagonal matrices has positive pivots only
    hc = ctx.build_harness("h_smcode")
    ctx.pipe([hc, "smooth", "16" if ctx.tier == "quick" else "300", "13", "16"], "smcode", label="smoother-line-blocks")
    # the operators a GMGPolar object holds after setup(), also after setter / re-setup histories (boundary mode, strategy, size)
    hs = ctx.build_harness("h_solver")
    ctx.pipe([hs, "opsym", "12" if ctx.tier == "quick" else "120"], "trace", label="solver-object-operators")
    ctx.assumptions += ["positive definiteness is PROVED in Dirichlet mode (C05.pd_dirichlet) and symmetry in both modes; across the "
                        "origin no nodal argument exists (C05.psd_across_fails is a machine-checked counterexample under pointwise "
                        "ellipticity alone), so that part is measured per generated case by the exact LDL^T",
                        "line blocks: C06d.circle_matrix_spd_dirichlet / radial_matrix_spd_dirichlet prove SPD (in the sense the tridiagonal "
                        "solver theorems of C14 need) for the stored line matrices of GMGModel/SmootherCode.lean in Dirichlet mode; those "
                        "matrices are tied to the real SmootherGive / SmootherTake objects entry by entry in the smoother-line-blocks stage"]
