"""C09 — FMG interpolation and nested-iteration start-up."""
LEVEL = "proof"
RULE = ("interpolation: all transfer entry points incl. applyFMGInterpolation on random non-uniform fine/coarse pairs (every node "
        "class: boundary, next-to-boundary, interior, odd/even in each direction, circle or radial section) vs the exact model; "
        "start-up: initializeSolution() traced on the real object for 2..5 levels, every FMG cycle type and iteration count 0..2, "
        "with and without extrapolation, twice with different stale contents of all work vectors (results must be identical), and "
        "the two-level start vector against the interpolated coarse solution.  Distinct by (nrF, ntF, splits) and (L, extrap, cycle, its)")


def run(ctx):
    ctx.prove(extra_modules=["GMGProofs.Props.C09s", "GMGProofs.Props.C09c", "GMGProofs.Props.C10j"])
    h = ctx.build_harness("h_ops")
    hs = ctx.build_harness("h_solver")
    if ctx.tier == "quick":
        ctx.pipe([h, "transfer", "40", "17", "32"], "transfer", label="fmg-interpolation")
        ctx.pipe([hs, "fmg", "60"], "trace", label="fmg-startup")
    else:
        ctx.pipe([h, "transfer", "400", "33", "64"], "transfer", label="fmg-interpolation")
        ctx.pipe([hs, "fmg", "600"], "trace", label="fmg-startup")
    # the start-up executed INSIDE the model (Concrete.startL over the code-level models, hierarchy built by Build.hier) against the real
    # initializeSolution(): 2 and 3 levels, every FMG cycle type, 0..2 FMG iterations, plain and extrapolated (shares the stage with C10)
    ctx.pipe([hs, "concrete", "9" if ctx.tier == "quick" else "60"], "concrete", label="fmg-startup-in-the-model")
    # "nested iteration from the coarsest level": the start-up can only be as good as the level right-hand sides and operators setup()
    # provides for it — the level right-hand sides against the model (every extrapolation mode x FMG, 2..4 levels) and the decision table
    # of setup() (which levels get a right-hand side, which operators) on real traces
    ctx.pipe([hs, "rhs", "12" if ctx.tier == "quick" else "150"], "rhs", label="level-right-hand-sides")
    ctx.pipe([hs, "setup", "40" if ctx.tier == "quick" else "150"], "setup", label="setup-provides")
    ctx.assumptions += ["'already has discretisation-level accuracy' is an accuracy statement (see C02) and is not proved"]
