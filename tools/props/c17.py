"""C17 — node numbering bijection, wrap, neighbours, split, coarsening."""
LEVEL = "proof"
RULE = ("random admissible grids (nr 2..max, nt even, power of two or not, uniform/geometric/jittered radii, antipodal "
        "jittered angles, split auto / below R0 / above Rmax / on a node / random) built with the real PolarGrid; every "
        "index, wrap (7*nt+4 unwrapped indices per row on every 4th grid), multi-index, neighbour, distance and coarsening "
        "query recomputed by the Lean model; a case is distinct by (nr, nt, nc, pow2, split kind)")


def run(ctx):
    ctx.prove()
    h = ctx.build_harness("h_grid", libs=("PolarGrid",))
    if ctx.tier == "quick":
        ctx.pipe([h, "300", "20", "28"], "grid")
        # few rows, many angles (even counts up to 1300): index arithmetic that is only wrong for particular moduli — a reciprocal
        # multiplication instead of the division, a mask instead of the modulo — needs many different ntheta, not many nodes
        ctx.pipe([h, "90", "5", "1300"], "grid", label="grid-many-ntheta")
    else:
        ctx.pipe([h, "1500", "24", "40"], "grid", label="grid-small")
        ctx.pipe([h, "60", "33", "1024"], "grid", label="grid-large-nt")
        ctx.pipe([h, "1200", "5", "2600"], "grid", label="grid-many-ntheta")
    if any(b[0].startswith("harness grid") for b in ctx.broken):
        # the harness died inside the library (an assert of /repo fired, or a crash): search for the concrete query with the
        # assertions compiled out, so that the wrong value reaches the comparison instead of aborting the process
        h2 = ctx.build_harness("h_grid", libs=("PolarGrid",), extra=("-DNDEBUG",), out_name="h_grid_ndebug")
        ctx.pipe([h2, "300", "20", "28"], "grid", label="grid-ndebug-search")
    # the same queries with the library's PolarGrid sources compiled under AddressSanitizer / UBSan and with the assertions compiled
    # out (what a release build executes): an out-of-bounds read that the default build performs silently ends the process here, and
    # the crash probe names the grid
    import subprocess, os, glob
    from verif import BUILD, REPO, ROOT, BrokenObligation
    out = os.path.join(BUILD, "harness-asan-unity")
    os.makedirs(out, exist_ok=True)
    exe = os.path.join(out, "h_grid")
    r = subprocess.run(["g++", "-std=c++20", "-O1", "-g", "-fopenmp", "-DNDEBUG", "-fsanitize=address,undefined", "-fno-sanitize-recover=all",
                        f"-I{REPO}/include", f"-I{REPO}/src", f"-I{ROOT}/harness", os.path.join(ROOT, "harness", "h_grid.cpp"),
                        *sorted(glob.glob(os.path.join(REPO, "src", "PolarGrid", "*.cpp"))), "-o", exe + ".tmp"], capture_output=True, text=True)
    if r.returncode != 0:
        raise BrokenObligation("harness-build:h_grid (asan)", r.stderr[-3000:])
    os.replace(exe + ".tmp", exe)
    env = {"ASAN_OPTIONS": "detect_leaks=0"}
    args = ["150", "20", "28"] if ctx.tier == "quick" else ["800", "24", "40"]
    ctx.pipe([exe, *args], "grid", env=env, label="grid-asan-ndebug")
    if any(b[0].startswith("harness grid-asan-ndebug") for b in ctx.broken):
        ctx.crash_probe([exe, *args], "grid-asan-ndebug-crash", start_re=r"^G\b", env=env)
    ctx.assumptions += ["nr*ntheta < 2^31 (the code stores node numbers in int)",
                        "the automatic split criterion is a floating-point predicate; the model treats it as an arbitrary "
                        "Boolean function (theorems) and re-evaluates it in IEEE double in the driver (correspondence)"]
