"""C20 — every option combination is either rejected cleanly or runs without UB."""
LEVEL = "proof"
RULE = ("random option tuples through the real command-line parser, setup() and solve(), each in a child process (60 % structurally valid, "
        "40 % with one invalid enumeration value and free numeric options: nr_exp 2..5, ntheta_exp -1..5, anisotropic_factor 0..5, "
        "divideBy2, R0 in {0, 1e-5, 1e-2, 0.1, 1.5}, refinement radius in {0, 0.66, 0.92, 1.3, 2.0}, level caps {-1,0,1,2,3}, zero "
        "smoothing steps, maxIterations 0..20, disabled tolerances, take without caches, 1-4 threads); the outcome class (usage exit, "
        "exception, completed run) and for runs the level count and grid size are compared with Options.classify, whose test-case "
        "table is regenerated from select_test_case.cpp; oracle: no crash / abort / sanitizer report, and the reported mean "
        "reduction factor is a finite non-negative number.  Distinct by (outcome, stage, nr_exp, aniso, maxLevels, extrapolation)")


def run(ctx):
    import subprocess, os
    from verif import ROOT, BrokenObligation
    r = subprocess.run(["python3", os.path.join(ROOT, "tools", "testcase_extract.py")], capture_output=True, text=True)
    if r.returncode != 0:
        raise BrokenObligation("translator testcase_extract.py", r.stdout + r.stderr)
    ctx.cov["translator"] = r.stdout.strip()
    ctx.also_props = ("C20",)
    ctx.prove(extra_modules=["GMGProofs.Props.C20s", "GMGProofs.Props.C10e", "GMGProofs.Props.C10f", "GMGProofs.Props.C10j", "GMGProofs.Props.C09c"])  # totality of the concrete cycles and of the start-up: no exit branch, no out-of-bounds store of the modelled assemblies
    if ctx.tier == "quick":
        h = ctx.build_harness("h_solver")
        ctx.pipe([h, "options", "250"], "options", label="option-tuples")
        ctx.pipe([h, "solve", "30", "4"], "trace", label="solves-finite")
        # decision table of setup() (GMGModel/Setup.lean) and "solve touches only what setup provided" on real traces
        ctx.pipe([h, "setup", "40"], "setup", label="setup-provides")
    else:
        h = ctx.build_harness("h_solver", variant="asan-ndebug")
        env = {"ASAN_OPTIONS": "detect_leaks=0"}
        ctx.pipe([h, "options", "1500"], "options", env=env, label="option-tuples-asan-ubsan")
        ctx.pipe([h, "solve", "60", "4"], "trace", env=env, label="solves-asan-ubsan")
        ctx.pipe([h, "setup", "150"], "setup", env=env, label="setup-provides-asan-ubsan")
        ho = ctx.build_harness("h_ops", variant="asan-ndebug")
        ctx.pipe([ho, "residual", "10", "17", "32"], "residual", env=env, label="operators-asan-ubsan")
        ctx.pipe([ho, "smooth", "20", "13", "16"], "smooth", env=env, label="smoothers-asan-ubsan")
        ctx.pipe([ho, "exsmooth", "20", "13", "16"], "smooth", env=env, label="exsmoothers-asan-ubsan")
        ctx.pipe([ho, "direct", "10", "9", "16"], "direct", env=env, label="direct-asan-ubsan")
        ctx.pipe([ho, "transfer", "20", "17", "32"], "transfer", env=env, label="transfer-asan-ubsan")
    # the vector kernels and the copy operations of Vector<T> under AddressSanitizer + UBSan (header-only harness, both tiers): sizes on
    # both sides of the 10'000-entry parallel switch and thread counts that do not divide them — the option tuples above never reach
    # such sizes, the solver does (levels with more than 10'000 nodes)
    vec_asan(ctx)
    ctx.assumptions += ["PARTIAL: absence of undefined behaviour is PROVED for the modelled index arithmetic, grid generation and level "
                        "selection (C17, C18, C20.never_undefined, C20.accepted_safe) and for the control variables of the solve loop "
                        "(total functional model, C01 / C13); for the C++ that is only spec-modelled (smoother internals, assembly loops) it "
                        "rests on the sanitizer runs of the thorough tier, which are evidence for the correspondence, not a theorem",
                        "defects F3 (uninitialised statistics) and F6 / F12 (grid generation) were repaired by fix: commits"]


def vec_asan(ctx):
    import subprocess, os
    from verif import ROOT, REPO, BUILD, GUARD
    out = os.path.join(BUILD, "harness-asan-vec")
    os.makedirs(out, exist_ok=True)
    exe = os.path.join(out, "h_vec")
    r = subprocess.run(["g++", "-std=c++20", "-fopenmp", f"-D{GUARD}", "-O1", "-g", "-DNDEBUG", "-fsanitize=address,undefined", "-fno-sanitize-recover=all",
                        f"-I{REPO}/include", f"-I{REPO}/src", f"-I{ROOT}/harness", os.path.join(ROOT, "harness", "h_vec.cpp"), "-o", exe + ".tmp%d" % os.getpid()],
                       capture_output=True, text=True)
    if r.returncode != 0:
        ctx.broken.append(("harness-build:h_vec (asan)", r.stderr[-3000:]))
        return
    os.replace(exe + ".tmp%d" % os.getpid(), exe)
    env = {"ASAN_OPTIONS": "detect_leaks=0"}
    before = len(ctx.broken)
    ctx.pipe([exe], "par", env=env, label="vector-kernels-asan-ubsan")
    if len(ctx.broken) > before and any(b[0].startswith("harness vector-kernels-asan-ubsan") for b in ctx.broken[before:]):
        ctx.crash_probe([exe], "vector-kernels-crash-probe", start_re=r"^VECBEGIN\b", env=env)
