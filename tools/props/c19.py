"""C19 — shipped test problems are consistent manufactured solutions."""
LEVEL = "proof"
RULE = ("(T) tools/cxx_expr.py re-translates 68 small analytic functions (mappings and Jacobians of the Circular / Shafranov / Czarny "
        "geometries, seven coefficient profiles, all non-Culham exact solutions and boundary data) into Sym.Expr terms and "
        "tools/testcase_extract.py the selectTestCase() tables, on every run; every accepted non-Culham (problem, geometry, alpha, beta) "
        "tuple is instantiated through the real parser and all its functions are sampled at points of (0, Rmax] x [0, 2pi) (log-spaced "
        "towards the origin, plus the outer boundary) with random geometry parameters in their valid ranges: (a) translated expressions "
        "vs compiled classes, (b) code Jacobian vs symbolic derivative of the mapping, alpha*beta = 1 for gyro profiles, boundary data "
        "= exact solution on the boundary, (c) the SHIPPED source term vs the source term the model DERIVES (Sym.Lu: the PDE operator in "
        "(r, theta) form applied to the exact solution by symbolic differentiation); Culham: central differences of the mapping vs its "
        "Jacobian.  Distinct by tuple")


def run(ctx):
    import subprocess, os
    from verif import ROOT, BrokenObligation
    for tr in ("cxx_expr.py", "testcase_extract.py"):
        r = subprocess.run(["python3", os.path.join(ROOT, "tools", tr)], capture_output=True, text=True)
        if r.returncode != 0:
            ctx.broken.append((f"translator {tr}: source no longer has the translatable form", (r.stdout + r.stderr)[-2000:]))
        else:
            ctx.cov.setdefault("translators", {})[tr] = r.stdout.strip()
    ctx.prove(extra_modules=["GMGProofs.Props.C19s", "GMGProofs.Props.C19i", "GMGProofs.Props.C19e"])
    h = ctx.build_harness("h_inputfn")
    n = "40" if ctx.tier == "quick" else "2000"
    ctx.pipe([h, "points", n], "inputfn", label="input-functions")
    ctx.pipe([h, "culham", "400" if ctx.tier == "quick" else "5000"], "inputfn", label="culham-jacobian")
    # translator-independent oracle on the compiled classes (finite differences of the PDE operator)
    ctx.pipe([h, "fd", "6" if ctx.tier == "quick" else "60"], "inputfn", label="pde-finite-differences")
    # the input functions are functions: several objects of one class alive together, evaluated alone / interleaved / alone again
    ctx.pipe([h, "hist", "30" if ctx.tier == "quick" else "400"], "inputfn", label="evaluation-histories")
    ctx.assumptions += ["the (r, theta) form of -div(alpha grad u) + beta u is the classical change of variables of the Cartesian operator; that "
                        "equivalence is not formalised", "the Shafranov / Czarny source-term files (44) are tied POINTWISE to the derived source term, not symbolically; the 21 Circular-geometry problems are theorems (C19s), 6 of them up to the rounding of the decimal literals in the shipped formulas",
                        "Culham: radial profiles are tabulated ODE solutions; only the theta-consistency of mapping and Jacobian is exact, the r part is measured",
                        "defect F8 (Culham cos 2theta) repaired by a fix: commit; F9 (three Poisson x Czarny source terms) is an open known finding"]
