"""C06 — smoothing is an exact zebra line relaxation of the same operator."""
LEVEL = "proof"
RULE = ("one sweep of SmootherGive and SmootherTake (1 and 4 threads, scratch vector filled with garbage) on random problems: nr 5..13, "
        "nt in {4,8,12,16}, both parities of the number of circles via explicit splits, both boundary modes, all geometries / "
        "profiles; the output must satisfy the sweep equations of the spec (for every node of every phase the operator row vanishes "
        "for the mixed iterate) within 2^-30*S in exact rational arithmetic; oracles: Dirichlet nodes carry the data exactly, all "
        "strategies / thread counts agree.  Distinct by (nr, nt, nc, bc, geometry, profile)")


def run(ctx):
    ctx.prove(extra_modules=["GMGProofs.Props.C06c", "GMGProofs.Props.C06d", "GMGProofs.Props.C06g"])
    h = ctx.build_harness("h_ops")
    ctx.pipe([h, "smooth", "60" if ctx.tier == "quick" else "1200", "13", "16"], "smooth", label="smoother-sweeps")
    # code-level models (GMGModel/SmootherCode.lean take, GMGModel/SmootherGiveCode.lean give): stored line matrices,
    # temp = rhs - A_sc^ortho x, one sweep; give / 1 thread bit for bit against the scatter model
    hc = ctx.build_harness("h_smcode")
    ctx.pipe([hc, "smooth", "30" if ctx.tier == "quick" else "400", "13", "16"], "smcode", label="smoother-code-level")
    if ctx.tier == "thorough":
        ctx.pipe([h, "smooth", "20", "33", "64"], "smooth", label="smoother-sweeps-33x64")
    # the parallel regions of these operators must be race-free, otherwise the result depends on the schedule
    ctx.schedule_conflicts((" SmootherGive::", " SmootherTake::"))
    # the smoothers as the SOLVER reaches them (setup() -> Level::initializeSmoothing -> Level::smoothing), every extrapolation mode
    hs = ctx.build_harness("h_solver")
    ctx.pipe([hs, "levelops", "smooth", "16" if ctx.tier == "quick" else "150"], "smooth", label="smoothing-through-the-solver-object")
    ctx.assumptions += ["spec-level model: the 5 000 lines of smoother C++ (assembly, right-hand sides, line solves) are tied to the sweep "
                        "equations by this correspondence only; the line solvers themselves are C14 / C16",
                        "energy monotonicity is proved in Dirichlet mode; across the origin it inherits the C05 gap"]
