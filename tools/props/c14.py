"""C14 — symmetric (cyclic) tridiagonal LDL^T line solver."""
LEVEL = "proof"
RULE = ("random SPD (cyclic) tridiagonal systems, n in {2,3,4,5,8,16,31,64,257}: strictly diagonally dominant (also with zero "
        "sub-diagonals), L D L^T products, symmetric scaling over 2^-34..2^34, corner of either sign; 1-4 solves per object with "
        "repeated right-hand sides.  Real SymmetricTridiagonalSolver<double> vs the code-like model run in IEEE double (same "
        "operation order; agreement within 2^-30, bit equality counted) and in exact rationals (must solve exactly); oracle on the "
        "implementation: componentwise backward error <= 2^-34 and bit-identical repeated solves.  Distinct by (n, cyclic, family)")


def run(ctx):
    ctx.prove()
    h = ctx.build_harness("h_linalg", libs=())
    if ctx.tier == "quick":
        ctx.pipe([h, "tridiag", "2000", "64"], "tridiag")
    else:
        ctx.pipe([h, "tridiag", "20000", "64"], "tridiag", label="tridiag-n64")
        ctx.pipe([h, "tridiag", "4000", "257"], "tridiag", label="tridiag-n257")
    ctx.assumptions += ["theorems are over an arbitrary (ordered) field; IEEE rounding is measured by the backward-error oracle, not proved",
                        "resolve_identical / state_stable hold for every scalar type, hence for double"]
