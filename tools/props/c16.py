"""C16 — sparse LU without pivoting on hash maps, CSR container."""
LEVEL = "proof"
RULE = ("random strictly diagonally dominant sparse matrices n<=max (banded, arrow, random, dense-ish; fill-in counted), "
        "non-symmetric values, unsorted column order, explicitly stored zeros, rows scaled over 2^-26..2^26, both CSR "
        "constructors, 1-3 right-hand sides.  Real SparseMatrixCSR/SparseLUSolver vs the map-level model in exact rationals: "
        "row starts equal, exact model solve exact, implementation within 2^-20 of it; oracle on the implementation: "
        "componentwise backward error <= 2^-30.  Distinct by (n, family, constructor, fill-in)")


def run(ctx):
    ctx.prove()
    h = ctx.build_harness("h_linalg", libs=())
    if ctx.tier == "quick":
        ctx.pipe([h, "lu", "700", "18"], "lu")
    else:
        ctx.pipe([h, "lu", "6000", "24"], "lu", label="lu-n24")
        ctx.pipe([h, "lu", "300", "40"], "lu", label="lu-n40")
    if any(b[0].startswith("harness lu") for b in ctx.broken):
        # the harness died inside the library (an assert of the headers fired, or a crash): search for the concrete system with the
        # assertions compiled out (what the library's default Release build executes), so that the wrong answer reaches the
        # comparison instead of aborting the process
        h2 = ctx.build_harness("h_linalg", libs=(), extra=("-DNDEBUG",), out_name="h_linalg_ndebug")
        ctx.pipe([h2, "lu", "700", "18"], "lu", label="lu-ndebug-search")
        # … and name the matrix on which the real code died (with and without assertions)
        if not ctx.failing:
            ctx.crash_probe([h, "lu", "700", "18"], "lu-crash-probe", start_re=r"^L\b") or ctx.crash_probe([h2, "lu", "700", "18"], "lu-ndebug-crash-probe", start_re=r"^L\b")
    # a copied / moved / re-assigned solver is a solver: the object histories of the linear-algebra containers (harness shared with C15)
    ctx.also_props = ("C15",)
    nobj = "400" if ctx.tier == "quick" else "2500"
    ctx.pipe([h, "objects", nobj, "14"], "objects", label="solver-object-histories")
    if any(b[0].startswith("harness solver-object-histories exited") for b in ctx.broken):
        # the real classes ended the process inside a history (e.g. the sparse LU's exit branch on a corrupted factorisation): name it
        ctx.crash_probe([h, "objects", nobj, "14"], "solver-object-histories-crash", start_re=r"^H\b")
    ctx.also_props = ()
    # known finding F7: the absolute pivot test + std::exit
    ctx.pipe([h, "lu-exit"], "lu", label="lu-exit-probe")
    ctx.assumptions += ["std::unordered_map is modelled as a key-unique association list; results are proved independent of its order "
                        "in exact arithmetic", "IEEE rounding is measured (backward error), not proved"]
