"""C02 — second-order accuracy; implicit extrapolation raises the order (PARTIAL: consistency ingredients proved)."""
LEVEL = "proof"
RULE = ("(a) the level right-hand sides setup() builds (build_rhs_f, injection, discretize_rhs_f; cached and uncached detDF; FMG / "
        "extrapolation level sets; uniform and anisotropic grids) against Rhs.discretize (Rhs.build ...) in exact rationals, with the "
        "source term and boundary data evaluated at the level's own nodes; (b) oracle on the implementation: discretisation error of "
        "the converged solution on three successive uniform refinements (17x32 -> 33x64 -> 65x128) without and with implicit "
        "extrapolation for random (geometry, problem, alpha, beta, boundary mode, strategy): order on the last pair >= 1.7 / 1.6 "
        "(weighted Euclidean / maximum norm) without and >= 2.8 / 2.2 with extrapolation (calibrated on the clean tree; the "
        "statement is asymptotic).  Distinct by (geometry, problem, alpha, beta, boundary mode, extrapolation)")


def run(ctx):
    ctx.prove()
    h = ctx.build_harness("h_solver")
    ctx.pipe([h, "rhs", "12" if ctx.tier == "quick" else "150"], "rhs", label="rhs-assembly")
    ctx.pipe([h, "order", "8" if ctx.tier == "quick" else "120", "4"], "trace", label="order-oracle")
    ctx.assumptions += ["PARTIAL: the order itself (an asymptotic statement of numerical analysis) is not proved; proved are the consistency "
                        "facts a wrong stencil weight, load scaling or boundary row would break (C02.load_mass_compat, dirichlet_exact, "
                        "rhs_program, radial_flux_telescopes, circ_linear_exact) and, across the origin, the exact defect of the 7-point "
                        "closure (C02.origin_row_constant_defect)",
                        "the order thresholds are calibrated, so a change that lowers the order only slightly is not seen"]
