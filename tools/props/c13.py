"""C13 — a solver object can be reused."""
LEVEL = "proof"
RULE = ("histories of length 2-4 over {option change + setup, solve, solve-without-setup} on ONE real GMGPolar object (random "
        "options incl. all extrapolation modes, FMG on/off, both strategies, problem sizes 17x32 / 33x64, iteration limits 4 / 150); "
        "after every solve the solution (hash of all bits), iteration count, mean reduction factor and both error figures are "
        "compared with a freshly constructed object given the same options.  Distinct by (history shape, extrapolation, FMG)")


def run(ctx):
    # C13c: over the code-level models the start-up and every cycle read nothing an earlier solve could have left behind
    ctx.prove(extra_modules=["GMGProofs.Props.C13c"])
    h = ctx.build_harness("h_solver")
    ctx.pipe([h, "reuse", "25" if ctx.tier == "quick" else "300"], "trace", label="reuse-histories")
    ctx.assumptions += ["single thread in the histories so that reused and fresh runs are bit-comparable (thread-count independence is C12)"]
