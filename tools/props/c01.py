"""C01 — solve() converges, and a reported convergence is true."""
LEVEL = "proof"
RULE = ("real setup()+solve() through the command-line parser on 17x32 (and 33x64) grids over random geometry x problem x profile x "
        "boundary mode x strategy x extrapolation 0..3 x cycle x FMG (every FMG cycle, 0..2 iterations) x 1-2 smoothing steps x level "
        "caps x norm types x tolerances (incl. disabled) x iteration limits; the logged trace is replayed through the model of the "
        "solve loop with the logged norms as oracle (instruction sequence, iteration count, stop decision, smoother switch, mean "
        "factor); oracle on the implementation: a stop before the limit is confirmed by the residual recomputed from the returned "
        "solution and the level right-hand sides with freshly built operators, and inside the documented configuration set the run "
        "converges within the budget.  Distinct by (L, extrap, kind, fmg, tolerances, maxit)")


def run(ctx):
    ctx.prove()
    h = ctx.build_harness("h_solver")
    if ctx.tier == "quick":
        ctx.pipe([h, "solve", "70", "4"], "trace", label="solve-17x32")
        ctx.pipe([h, "solve", "10", "5"], "trace", label="solve-33x64")
    else:
        ctx.pipe([h, "solve", "500", "4"], "trace", label="solve-17x32")
        ctx.pipe([h, "solve", "120", "5"], "trace", label="solve-33x64")
        ctx.pipe([h, "solve", "20", "6"], "trace", label="solve-65x128")
    ctx.pipe([h, "solve", "1", "-10"], "trace", label="known-finding-F10-probe")
    ctx.assumptions += ["PARTIAL: the first sentence of the property (contraction with mean factor < 1 for every supported configuration) "
                        "is a quantitative multigrid convergence theorem that is not proved; it is only observed on the sampled "
                        "configurations (known finding F10 is a configuration class where it is false)",
                        "the second sentence is proved on the model of the loop (C01.reported_true, stop_iff, budget) and confirmed on the implementation"]
