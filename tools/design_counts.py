#!/usr/bin/env python3
"""Rewrites the block between <!-- COUNTS-BEGIN --> and <!-- COUNTS-END --> in DESIGN.md (section R.3): theorem files and counts per property,
   total, model / driver / lemma line counts — computed from the tree, so the numbers in DESIGN.md are never stale."""
import re, os, glob
ROOT = os.path.dirname(os.path.dirname(os.path.abspath(__file__)))
L = os.path.join(ROOT, "lean")
def lines(pat): return sum(len(open(f).read().splitlines()) for f in glob.glob(os.path.join(L, pat)))
props = {}
for f in sorted(glob.glob(os.path.join(L, "GMGProofs/Props/*.lean"))):
    n = os.path.basename(f)[:-5]
    props.setdefault(n[:3], []).append((n, len(re.findall(r"^(?:theorem|lemma) ", open(f).read(), flags=re.M))))
total = sum(c for v in props.values() for _, c in v)
out = ["<!-- COUNTS-BEGIN -->",
       f"Current numbers (computed by `tools/design_counts.py`): **{total} property theorems** in {sum(len(v) for v in props.values())} files under `GMGProofs/Props`; "
       f"`GMGModel` {lines('GMGModel/*.lean')} lines in {len(glob.glob(os.path.join(L, 'GMGModel/*.lean')))} modules, `GMGDriver` {lines('GMGDriver/*.lean')} lines, "
       f"`GMGProofs/Lemmas` {lines('GMGProofs/Lemmas/*.lean')} lines in {len(glob.glob(os.path.join(L, 'GMGProofs/Lemmas/*.lean')))} files, `GMGProofs/Props` {lines('GMGProofs/Props/*.lean')} lines; "
       f"{len([d for d in os.listdir(os.path.join(ROOT, 'seeded')) if os.path.isdir(os.path.join(ROOT, 'seeded', d))])} kept seeded changes.", "",
       "| property | theorem files (theorems) | total |", "|---|---|---|"]
for k in sorted(props):
    out.append(f"| {k} | " + ", ".join(f"`{n}` ({c})" for n, c in props[k]) + f" | {sum(c for _, c in props[k])} |")
# stages of each check as the last quick run recorded them (evidence/<id>.json)
import json
out += ["", "Stages of the quick tier per property (from `evidence/<id>.json` of the last run: stage label, then what the driver counted):", "",
        "| property | stages (correspondence / oracle pipelines) | obligations | evaluations |", "|---|---|---|---|"]
for k in sorted(props):
    ep = os.path.join(ROOT, "evidence", k + ".json")
    if not os.path.exists(ep):
        continue
    e = json.load(open(ep)); c = e.get("coverage", {})
    st = ", ".join(f"`{x}`" for x in c.get("input_distribution", {}).keys())
    out.append(f"| {k} | {st} | {c.get('discharged', '')}/{c.get('obligations', '')} | {c.get('evaluations', '')} |")
out.append("<!-- COUNTS-END -->")
p = os.path.join(ROOT, "DESIGN.md"); s = open(p).read()
blk = "\n".join(out)
if "<!-- COUNTS-BEGIN -->" in s:
    s = re.sub(r"<!-- COUNTS-BEGIN -->.*?<!-- COUNTS-END -->", lambda m: blk, s, flags=re.S)
else:
    s = s.replace("\n### R.4 Defects found", "\n" + blk + "\n\n### R.4 Defects found", 1)
open(p, "w").write(s)
print(total, "theorems")
