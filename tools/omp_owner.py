#!/usr/bin/env python3
"""Translator 2 for C11/C12: the *owner-computes* parallel regions  ->  lean/Generated/Owner.lean

Every `#pragma omp parallel …` of the no-MUMPS build that is not one of the twelve kernel-dispatch regions of
omp_extract.py is analysed syntactically.  A region is in owner-computes form when
  * it is `#pragma omp parallel for` + one for-statement, or `#pragma omp parallel` + a block whose statements are
    declarations and `#pragma omp for [nowait]` for-statements,
  * every store into an array that is not declared inside the loop body has the form  A[idx] op= …  where idx is
      - the work-shared loop variable itself                                     (flat loop), or
      - G.index(a, b) with {a, b} = {work-shared variable, variable of an enclosing sequential loop} (grid loop),
    possibly through local aliases (`int index = grid.index(i_r, i_theta);`), macros of the file expanded,
  * every other occurrence of a stored array inside the region is subscripted with the iteration's own index,
  * loop bounds are built from literals and G.nr() / G.ntheta() / G.numberSmootherCircles() of the grid G that
    indexes the stored array (flat loops: any bound).
For such a region the iteration (t, w) touches only the cell (t, w) of the stored arrays; the generated Lean term
records the loops with their bounds, and the generated separation lemma (two loops of one barrier interval touch
disjoint sets of cells) is proved by `omega` on the generated bounds.  A region that is not in this form is listed
with the reason; the list of regions that ARE expected in this form is pinned in tools/owner_expected.json, so a
change that leaves the form is a broken obligation, not a silent loss of coverage."""
import json, os, re, sys

sys.path.insert(0, os.path.dirname(os.path.abspath(__file__)))
from omp_extract import strip_comments, match_brace, other_regions, REPO

ROOT = os.path.dirname(os.path.dirname(os.path.abspath(__file__)))


class NotOwner(Exception):
    pass


FOR_RE = re.compile(r"for\s*\(\s*(?:(?:const\s+)?(?:int|size_t|std::size_t|unsigned|int64_t)\s+)?(\w+)\s*=\s*([^;]+?)\s*;\s*(\w+)\s*<\s*([^;]+?)\s*;\s*(?:(\w+)\s*\+\+|\+\+\s*(\w+)|(\w+)\s*\+=\s*(\d+))\s*\)")


def file_macros(src):
    macros = {}
    for m in re.finditer(r"^[ \t]*#define[ \t]+(\w+)\(\)[ \t]*((?:.*\\\n)*.*)$", src, flags=re.M):
        macros[m.group(1)] = m.group(2).replace("\\\n", "\n")
    return macros


def expand_macros(src, macros):
    """function-like macros without parameters defined in the same file (`#define NAME() \\ …`)"""
    for _ in range(3):
        for k, v in macros.items():
            src = re.sub(r"(?<!define )\b" + k + r"\(\)\s*;?", lambda _m: "{" + v + "}", src)
    return src


def parse_for(text, pos):
    m = FOR_RE.match(text, pos)
    if not m:
        raise NotOwner("loop header not of the form for (int v = lo; v < hi; v++ / v += k)")
    var = m.group(1)
    if m.group(3) != var or (m.group(5) or m.group(6) or m.group(7)) != var:
        raise NotOwner("loop header uses different variables")
    step = int(m.group(8)) if m.group(8) else 1
    i = m.end()
    while text[i].isspace():
        i += 1
    if text[i] == "{":
        j = match_brace(text, i)
        body = text[i + 1:j]
        end = j + 1
    else:
        j = text.index(";", i)
        body = text[i:j + 1]
        end = j + 1
    return dict(var=var, lo=m.group(2).strip(), hi=m.group(4).strip(), step=step, body=body), end


def bound_to_lean(e, grid):
    """literal / G.nr() / G.ntheta() / G.numberSmootherCircles() / sums and differences of those"""
    e = e.replace(" ", "")
    e = re.sub(r"\b(\w+(?:_)?)\.(nr|ntheta|numberSmootherCircles|lengthSmootherRadial)\(\)", lambda m: f"<{m.group(1)}.{m.group(2)}>", e)
    grids = set(re.findall(r"<(\w+)\.", e))
    if grid is not None and grids - {grid}:
        raise NotOwner(f"bound `{e}` uses grid {grids} but the store is indexed by {grid}")
    out = re.sub(r"<\w+\.nr>", "s.nr", e)
    out = re.sub(r"<\w+\.ntheta>", "s.nt", out)
    out = re.sub(r"<\w+\.numberSmootherCircles>", "s.nc", out)
    out = re.sub(r"<\w+\.lengthSmootherRadial>", "(s.nr - s.nc)", out)
    if not re.fullmatch(r"[\d\s+\-()s.nrtc]*", out):
        raise NotOwner(f"bound `{e}` is not built from literals and grid sizes")
    out = re.sub(r"([+\-])", r" \1 ", out)
    return "(" + out.strip() + ")", (next(iter(grids)) if grids else None)


DECL_RE = re.compile(r"(?:const\s+)?(?:int|double|auto|size_t|bool|T)\s*&?\s+(\w+)\s*=\s*([^;]+);")


def analyse_loop(loop, nowait, reduction_var=None):
    body = loop["body"]
    V = loop["var"]
    # sequential inner loops (position ranges)
    inner = []
    for m in re.finditer(r"\bfor\s*\(", body):
        try:
            l, end = parse_for(body, m.start())
        except NotOwner:
            continue
        inner.append((m.start(), end, l))
    # aliases (flat: a name has one definition text, or several identical ones)
    alias = {}
    for m in DECL_RE.finditer(body):
        name, e = m.group(1), re.sub(r"\s+", "", m.group(2))
        if name in alias and alias[name] != e:
            alias[name] = None  # ambiguous
        else:
            alias.setdefault(name, e)
    for lv in [V] + [l["var"] for _, _, l in inner]:
        alias.pop(lv, None)  # `int v = lo` of a loop header is not an alias
    local_names = set(alias) | {l["var"] for _, _, l in inner} | {V}
    for m in re.finditer(r"(?:double|int|Vector<double>)\s+(\w+)\s*(?:,\s*(\w+)\s*)*;", body):
        local_names |= {x.strip() for x in m.group(0).split(None, 1)[1].rstrip(";").split(",")}

    def resolve(e):
        e = re.sub(r"\s+", "", e)
        for _ in range(4):
            if e in alias and alias[e]:
                e = alias[e]
        return e

    def enclosing(pos):
        return [l for a, b, l in inner if a <= pos < b]

    def classify(idx, pos):
        e = resolve(idx)
        if e == V:
            return ("flat", None, None)
        m = re.fullmatch(r"(\w+)\.index\((\w+),(\w+)\)", e)
        if m:
            g, a, b = m.group(1), resolve(m.group(2)), resolve(m.group(3))
            encl = enclosing(pos)
            for l in encl:
                if (a, b) == (V, l["var"]):
                    return ("rowOuter", g, l)
                if (a, b) == (l["var"], V):
                    return ("colOuter", g, l)
            raise NotOwner(f"store index {e}: its arguments are not (work-shared variable, enclosing loop variable)")
        raise NotOwner(f"store index `{e}` is neither the loop variable nor G.index(row, column)")

    if re.search(r"&\s*\w+\s*=\s*[\w.()]+\s*\[", body):
        raise NotOwner("a reference is bound to an array element (stores through it would not be seen)")
    stores = []
    for m in re.finditer(r"(?<![>.\w])(\w+(?:\.\w+\(\))?)\s*\[([^\]]+)\]\s*(\+=|-=|\*=|/=|=)(?!=)", body):
        name = m.group(1)
        if name in local_names:
            continue
        stores.append((name, classify(m.group(2), m.start()), m.start()))
    if not stores and reduction_var:
        # reduction loop: nothing shared is stored, the only non-local assignment target is the reduction variable
        targets = {m.group(1) for m in re.finditer(r"(?<![>.\w\]])\b(\w+)\s*(?:\+=|-=|\*=|/=|=)(?!=)", body)} - local_names
        if targets - {reduction_var}:
            raise NotOwner(f"reduction loop assigns shared scalars {sorted(targets - {reduction_var})}")
        return dict(kind="reduce", lo="0", hi="1", ilo="0", ihi="1", step=1, nowait=nowait, arrays=[], grid=None, flat_bound=loop["hi"])
    if not stores:
        raise NotOwner("no array store found in the loop body (writes happen inside calls)")
    kinds = {(k, g, id(l) if l else None) for _, (k, g, l), _ in stores}
    if len(kinds) != 1:
        raise NotOwner("stores of one loop use different index forms")
    kind, grid, il = stores[0][1]
    arrays = sorted({n for n, _, _ in stores})
    # every other occurrence of a stored array must be subscripted by the own index
    for a in arrays:
        for m in re.finditer(r"(?<![>.\w])" + re.escape(a) + r"(?![\w(])\s*(\[([^\]]+)\])?", body):
            if not m.group(1):
                raise NotOwner(f"stored array {a} is also used without a subscript")
            k2 = classify(m.group(2), m.start())
            if (k2[0], k2[1]) != (kind, grid) or (k2[2] is not il):
                raise NotOwner(f"stored array {a} is read at a foreign index {m.group(2)}")
    lo, g1 = bound_to_lean(loop["lo"], grid) if kind != "flat" else ("0", None)
    hi, g2 = bound_to_lean(loop["hi"], grid) if kind != "flat" else ("1", None)
    if kind == "flat":
        ilo, ihi = "0", "1"
    else:
        ilo, _ = bound_to_lean(il["lo"], grid)
        ihi, _ = bound_to_lean(il["hi"], grid)
        if il["step"] != 1:
            raise NotOwner("inner loop with a stride")
    return dict(kind=kind, lo=lo, hi=hi, ilo=ilo, ihi=ihi, step=loop["step"], nowait=nowait, arrays=arrays, grid=grid,
                flat_bound=(loop["hi"] if kind == "flat" else None))


def analyse_region(rel, line_no, pragma):
    src = strip_comments(open(os.path.join(REPO, rel), errors="replace").read())
    src_lines = src.split("\n")
    # position of the pragma (comments were replaced by same number of newlines)
    pos = sum(len(l) + 1 for l in src_lines[:line_no - 1])
    after = pos + len(src_lines[line_no - 1]) + 1
    text = expand_macros(src[after:after + 200000], file_macros(src))
    for m in re.finditer(r"const\s+int\s+(\w+)\s*=\s*(\w+\.(?:nr|ntheta|numberSmootherCircles|lengthSmootherRadial)\(\))\s*;", src[max(0, pos - 2500):pos]):
        text = re.sub(r"\b" + m.group(1) + r"\b", m.group(2), text)
    k = 0
    while text[k].isspace():
        k += 1
    red = re.search(r"reduction\(\s*(?:\+|max|min)\s*:\s*(\w+)\s*\)", pragma)
    loops = []
    if re.search(r"parallel\s+for", pragma):
        l, _ = parse_for(text, k)
        loops.append(analyse_loop(l, False, red.group(1) if red else None))
    else:
        if text[k] != "{":
            raise NotOwner("parallel block does not start with {")
        end = match_brace(text, k)
        block = text[k + 1:end]
        cur = 0
        rest = ""
        for m in re.finditer(r"#pragma\s+omp\s+for([^\n]*)\n", block):
            rest += block[cur:m.start()]
            j = m.end()
            while block[j].isspace():
                j += 1
            l, e2 = parse_for(block, j)
            loops.append(analyse_loop(l, "nowait" in m.group(1)))
            cur = e2
        rest += block[cur:]
        # what is left must be declarations only
        rest = re.sub(r"(?:const\s+)?[\w:<>]+\s*&?\s+\w+\s*(?:\([^;]*\)|=[^;]*)?;", "", rest)
        if rest.strip():
            raise NotOwner("statements other than declarations and work-shared loops inside the parallel block: " + rest.strip()[:60])
        if not loops:
            raise NotOwner("no work-shared loop in the parallel block")
    return loops


def py_pairs(flags):
    """same algorithm as Owner.pairsFrom (Lean re-computes it: `NAME_pairs` is proved by rfl)"""
    out = []
    for i, nw in enumerate(flags):
        open_ = nw
        for j in range(i + 1, len(flags)):
            if not open_:
                break
            out.append((i, j))
            open_ = flags[j]
    return out


def lean_region(name, qual, loops):
    out = [f"def {name} : ORegion := {{ name := \"{qual}\", loops := ["]
    items = []
    for l in loops:
        items.append(f"  {{ kind := .{l['kind']}, lo := fun s => {l['lo']}, hi := fun s => {l['hi']}, ilo := fun s => {l['ilo']}, ihi := fun s => {l['ihi']}, "
                     f"step := {l['step']}, nowait := {'true' if l['nowait'] else 'false'}, arrays := {json.dumps(l['arrays'])} }}")
    out.append(",\n".join(items))
    out.append("] }")
    defs = "\n".join(out)
    out = []
    ps = py_pairs([l["nowait"] for l in loops])
    lit = "[" + ", ".join(f"({a}, {b})" for a, b in ps) + "]"
    out.append(f"theorem {name}_pairs : pairs {name} = {lit} := by rfl")
    if not ps:
        out.append(f"theorem {name}_sep : ∀ s : Sched.Shape, Separated s {name} := by\n  intro s p hp; rw [{name}_pairs] at hp; cases hp")
    else:
        out.append(f"theorem {name}_sep : ∀ s : Sched.Shape, Separated s {name} := by\n  intro s p hp; rw [{name}_pairs] at hp\n"
                   f"  simp only [List.mem_cons, List.mem_nil_iff, or_false] at hp\n"
                   f"  rcases hp with " + " | ".join(["rfl"] * len(ps)) + "\n"
                   f"  all_goals (simp only [{name}, LoopsSep, List.getD_eq_getElem?_getD, List.getElem?_cons_zero, List.getElem?_cons_succ, Option.getD_some]; first | (right; omega) | (left; decide))")
    return defs, "\n".join(out)


def main():
    out_path = os.path.join(ROOT, "lean", "Generated", "Owner.lean")
    regions, rejected = [], []
    counter = {}
    for rel, line_no, pragma in other_regions():
        k = counter.get(rel, 0)
        counter[rel] = k + 1
        rid = f"{rel}#{k}"
        try:
            loops = analyse_region(rel, line_no, pragma)
            regions.append(dict(id=rid, file=rel, line=line_no, pragma=pragma, loops=loops))
        except NotOwner as e:
            rejected.append(dict(id=rid, file=rel, line=line_no, pragma=pragma, reason=str(e)))
        except Exception as e:  # parse trouble is a rejection with the reason, never a crash
            rejected.append(dict(id=rid, file=rel, line=line_no, pragma=pragma, reason="parse: " + repr(e)[:120]))
    names = []
    head = "/-! GENERATED by tools/omp_owner.py from /repo's working tree on every check — do not edit. -/"
    lines = ["import GMGModel.Owner", head, "set_option linter.unusedVariables false", "namespace Owner.Gen", "open Owner", ""]
    lem = ["import Generated.Owner", head, "set_option linter.unusedVariables false", "set_option linter.unusedSimpArgs false", "namespace Owner.Gen", "open Owner", ""]
    for i, r in enumerate(regions):
        nm = "r" + re.sub(r"\W", "_", r["id"])
        names.append(nm)
        d, l = lean_region(nm, r["id"], r["loops"])
        lines.append(f"/-- `{r['file']}:{r['line']}`  {r['pragma']} -/")
        lines.append(d)
        lines.append("")
        lem.append(l)
        lem.append("")
    lines.append("def all : List ORegion := [" + ", ".join(names) + "]")
    lines.append("end Owner.Gen")
    lem.append("theorem all_sep : ∀ reg ∈ all, ∀ s : Sched.Shape, Separated s reg := by\n  intro reg h s\n  simp only [all, List.mem_cons, List.mem_nil_iff, or_false] at h\n  rcases h with " +
               " | ".join(["rfl"] * len(names)) + "\n" + "\n".join(f"  · exact {n}_sep s" for n in names))
    lem.append("end Owner.Gen")
    new = "\n".join(lines) + "\n"
    old = open(out_path).read() if os.path.exists(out_path) else None
    if new != old:
        open(out_path, "w").write(new)
    lem_path = os.path.join(ROOT, "lean", "Generated", "OwnerSep.lean")
    newl = "\n".join(lem) + "\n"
    oldl = open(lem_path).read() if os.path.exists(lem_path) else None
    if newl != oldl:
        open(lem_path, "w").write(newl)
    json.dump(dict(regions=regions, rejected=rejected), open(os.path.join(ROOT, "lean", "Generated", "Owner.json"), "w"), indent=1)
    # pinned expectation
    exp_path = os.path.join(ROOT, "tools", "owner_expected.json")
    missing = []
    if os.path.exists(exp_path):
        exp = json.load(open(exp_path))
        have = {r["id"] for r in regions}
        missing = [x for x in exp if x not in have]
    print(json.dumps(dict(owner_regions=len(regions), loops=sum(len(r["loops"]) for r in regions), rejected=len(rejected),
                          missing_expected=missing, changed=(new != old))))
    if "--list" in sys.argv:
        for r in regions:
            print("OK ", r["id"], [(l["kind"], l["arrays"]) for l in r["loops"]])
        for r in rejected:
            print("REJ", r["id"], r["line"], r["reason"])
    sys.exit(3 if missing else 0)


if __name__ == "__main__":
    main()
