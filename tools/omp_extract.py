#!/usr/bin/env python3
"""Translator: OpenMP phase structure of the kernel-dispatch parallel regions  ->  lean/Generated/Sched.lean

For every `#pragma omp parallel { ... }` region of the listed member functions it extracts, in order, the work-sharing
loops `#pragma omp for [nowait]` with their canonical header `for (int v = a; v < b; v += s | v++)` and their body: a list
of kernel calls (member functions taking the line index first, optionally a SmootherColor), possibly under `if / else if`
ladders over loop variable and shape constants, with `int local = expr;` definitions substituted.  Anything outside this
subset is an extraction failure (exit 2), which the orchestrator treats as a broken obligation.

Also extracted as plain facts: variables declared inside the region (per-thread scratch), `reduction` clauses of the vector
kernels, and every parallel region of the build that is NOT a kernel-dispatch region (listed with file and line so that
the evidence shows what the schedule model does not cover).
"""
import json, os, re, sys

REPO = os.environ.get("VERIF_REPO", "/repo")

# (file, function, Lean name, class tag)
REGIONS = [
    ("src/Residual/ResidualGive/residualGive.cpp", "ResidualGive::computeResidual", "residualGive", "ResidualGive"),
    ("src/Residual/ResidualTake/residualTake.cpp", "ResidualTake::computeResidual", "residualTake", "ResidualTake"),
    ("src/Smoother/SmootherGive/smootherSolver.cpp", "SmootherGive::smoothingForLoop", "smootherGive", "SmootherGive"),
    ("src/Smoother/SmootherTake/smootherSolver.cpp", "SmootherTake::smoothing", "smootherTake", "SmootherTake"),
    ("src/ExtrapolatedSmoother/ExtrapolatedSmootherGive/smootherSolver.cpp", "ExtrapolatedSmootherGive::extrapolatedSmoothingForLoop", "exSmootherGive", "ExSmootherGive"),
    ("src/ExtrapolatedSmoother/ExtrapolatedSmootherTake/smootherSolver.cpp", "ExtrapolatedSmootherTake::extrapolatedSmoothing", "exSmootherTake", "ExSmootherTake"),
    ("src/DirectSolver/DirectSolverGiveCustomLU/buildSolverMatrix.cpp", "DirectSolverGiveCustomLU::buildSolverMatrix", "directGive", "DirectGive"),
    ("src/DirectSolver/DirectSolverTakeCustomLU/buildSolverMatrix.cpp", "DirectSolverTakeCustomLU::buildSolverMatrix", "directTake", "DirectTake"),
    ("src/Smoother/SmootherGive/buildMatrix.cpp", "SmootherGive::buildAscMatrices", "smootherGiveAsc", "SmootherGiveAsc"),
    ("src/Smoother/SmootherTake/buildMatrix.cpp", "SmootherTake::buildAscMatrices", "smootherTakeAsc", "SmootherTakeAsc"),
    ("src/ExtrapolatedSmoother/ExtrapolatedSmootherGive/buildAscMatrices.cpp", "ExtrapolatedSmootherGive::buildAscMatrices", "exSmootherGiveAsc", "ExSmootherGiveAsc"),
    ("src/ExtrapolatedSmoother/ExtrapolatedSmootherTake/buildAscMatrices.cpp", "ExtrapolatedSmootherTake::buildAscMatrices", "exSmootherTakeAsc", "ExSmootherTakeAsc"),
]


class ExtractError(Exception):
    pass


def strip_comments(s):
    s = re.sub(r"/\*.*?\*/", lambda m: " " * 0 + "\n" * m.group(0).count("\n"), s, flags=re.S)
    s = re.sub(r"//[^\n]*", "", s)
    return s


def find_function(src, qualname):
    m = re.search(r"\b" + re.escape(qualname) + r"\s*\(", src)
    if not m:
        raise ExtractError(f"function {qualname} not found")
    i = src.index("{", m.end())
    return i, match_brace(src, i)


def match_brace(s, i):
    assert s[i] == "{"
    d = 0
    for k in range(i, len(s)):
        if s[k] == "{":
            d += 1
        elif s[k] == "}":
            d -= 1
            if d == 0:
                return k
    raise ExtractError("unbalanced braces")


# ---- tiny expression translator (C int expressions over shape constants) -> Lean Int expression text
TOK = re.compile(r"\s*(\d+|[A-Za-z_][A-Za-z_0-9]*(?:\.[A-Za-z_][A-Za-z_0-9]*)*(?:\(\))?|==|!=|>=|<=|&&|\|\||[-+*/%()<>!])")


def tokens(e):
    out, pos = [], 0
    e = e.strip()
    while pos < len(e):
        m = TOK.match(e, pos)
        if not m:
            raise ExtractError(f"cannot tokenise expression `{e}` at {pos}")
        out.append(m.group(1))
        pos = m.end()
    return out


SHAPE = {"grid_.numberSmootherCircles()": "s.nc", "grid_.ntheta()": "s.nt", "grid_.nr()": "s.nr",
         "grid_.lengthSmootherRadial()": "(s.nr - s.nc)"}


def lean_expr(e, env, loopvar):
    """env: local name -> Lean text.  Supports + - * % comparisons && || ! and parentheses."""
    tm = re.match(r"^\s*\((.*)\)\s*\?\s*([^:]+):\s*(.+)$", e.strip())
    if tm:
        return f"(if {lean_expr(tm.group(1), env, loopvar)} then {lean_expr(tm.group(2), env, loopvar)} else {lean_expr(tm.group(3), env, loopvar)})"
    out = []
    for t in tokens(e):
        if t in SHAPE:
            out.append(SHAPE[t])
        elif t == loopvar:
            out.append("v")
        elif t in env:
            out.append("(" + env[t] + ")")
        elif re.fullmatch(r"\d+", t):
            out.append(t)
        elif t in ("+", "-", "*", "%", "(", ")", "<", ">"):
            out.append(t)
        elif t == "==":
            out.append("=")
        elif t == "!=":
            out.append("≠")
        elif t == ">=":
            out.append("≥")
        elif t == "<=":
            out.append("≤")
        elif t == "&&":
            out.append("∧")
        elif t == "||":
            out.append("∨")
        elif t == "!":
            out.append("¬")
        else:
            raise ExtractError(f"unknown identifier `{t}` in `{e}`")
    return " ".join(out)


COLOURS = {"SmootherColor::Black": ".black", "SmootherColor::White": ".white"}


def parse_body(body, env, loopvar, cls):
    """statement list -> Lean term of type List Call (text)."""
    body = body.strip()
    items = []
    env = dict(env)
    pos = 0
    while pos < len(body):
        rest = body[pos:].lstrip()
        pos = len(body) - len(rest)
        if not rest:
            break
        m = re.match(r"(?:const\s+)?int\s+([A-Za-z_]\w*)\s*=\s*([^;]+);", rest)
        if m:
            env[m.group(1)] = lean_expr(m.group(2), env, loopvar)
            pos += m.end()
            continue
        if rest.startswith("if"):
            term, used = parse_if(rest, env, loopvar, cls)
            items.append(term)
            pos += used
            continue
        m = re.match(r"([A-Za-z_]\w*)\s*\(([^;]*)\)\s*;", rest)
        if m:
            args = [a.strip() for a in m.group(2).split(",")]
            colour = ".none"
            for a in args[1:]:
                if a in COLOURS:
                    colour = COLOURS[a]
            arg0 = lean_expr(args[0], env, loopvar)
            items.append(f"[⟨.{cls}, .{m.group(1)}, {arg0}, {colour}⟩]")
            pos += m.end()
            continue
        raise ExtractError(f"unsupported statement in loop body: `{rest[:80]}`")
    if not items:
        return "[]"
    return " ++ ".join(items)


def parse_if(text, env, loopvar, cls):
    m = re.match(r"if\s*\(", text)
    depth, k = 1, m.end()
    while depth:
        if text[k] == "(":
            depth += 1
        elif text[k] == ")":
            depth -= 1
        k += 1
    cond = lean_expr(text[m.end():k - 1], env, loopvar)
    k2 = text.index("{", k)
    e = match_brace(text, k2)
    then = parse_body(text[k2 + 1:e], env, loopvar, cls)
    used = e + 1
    rest = text[used:].lstrip()
    els = "[]"
    if rest.startswith("else"):
        off = len(text[used:]) - len(rest)
        r2 = rest[4:].lstrip()
        off2 = len(rest[4:]) - len(r2)
        if r2.startswith("if"):
            els, u = parse_if(r2, env, loopvar, cls)
            used += off + 4 + off2 + u
        else:
            k3 = r2.index("{")
            e3 = match_brace(r2, k3)
            els = parse_body(r2[k3 + 1:e3], env, loopvar, cls)
            used += off + 4 + off2 + e3 + 1
    return f"(if {cond} then {then} else {els})", used


LOOP_HDR = re.compile(r"for\s*\(\s*int\s+(\w+)\s*=\s*([^;]+);\s*\1\s*<\s*([^;]+);\s*(?:\1\s*\+=\s*(\d+)|\1\+\+|\+\+\1)\s*\)\s*\{")


def extract_region(path, qualname, cls):
    src = strip_comments(open(os.path.join(REPO, path)).read())
    fstart, fend = find_function(src, qualname)
    fn = src[fstart:fend + 1]
    # the kernel-dispatch region: the LAST `#pragma omp parallel` block (not `parallel for`) of the function
    regs = [m for m in re.finditer(r"#pragma\s+omp\s+parallel(?!\s+for)[^\n]*\n", fn)]
    if not regs:
        raise ExtractError(f"{qualname}: no parallel region")
    m = regs[-1]
    b = fn.index("{", m.end())
    e = match_brace(fn, b)
    region = fn[b + 1:e]
    # local constants defined before the region (substituted into bounds and bodies)
    env = {}
    first_for0 = re.search(r"#pragma\s+omp\s+for", region)
    prelude = fn[:m.start()] + (region[:first_for0.start()] if first_for0 else "")
    for cm in re.finditer(r"(?:const\s+)?int\s+([A-Za-z_]\w*)\s*=\s*([^;{}]+);", prelude):
        try:
            env[cm.group(1)] = lean_expr(cm.group(2), env, None)
        except ExtractError:
            pass
    # per-thread declarations inside the region, before the first work-sharing loop
    first_for = re.search(r"#pragma\s+omp\s+for", region)
    private = re.findall(r"Vector<double>\s+(\w+)\s*\(", region[:first_for.start()] if first_for else region)
    # vectors declared in the function BEFORE the region (hence shared by the team) that the region's code uses by name and that are
    # not parameters of the function: a workspace that moved out of the region shows up here
    shared_locals = [v for v in re.findall(r"Vector<double>\s+(\w+)\s*\(", fn[:m.start()]) if re.search(r"\b" + re.escape(v) + r"\b", region)]
    loops = []
    pos = 0
    while True:
        pm = re.compile(r"#pragma\s+omp\s+for([^\n]*)\n").search(region, pos)
        if not pm:
            break
        clause = pm.group(1).strip()
        # `schedule(static[, chunk])` only fixes the assignment of iterations to threads; the theorems quantify over every assignment,
        # so the clause carries no information for the model and is dropped.  Anything else (dynamic/guided would be fine too, but
        # collapse, ordered, reduction, … change the meaning) is outside the form.
        clause = re.sub(r"schedule\s*\(\s*(static|dynamic|guided)\s*(,\s*\d+\s*)?\)", "", clause).strip()
        if clause not in ("", "nowait"):
            raise ExtractError(f"{qualname}: unsupported clause `{clause}`")
        hm = LOOP_HDR.match(region[pm.end():].lstrip())
        if not hm:
            raise ExtractError(f"{qualname}: loop header not canonical: `{region[pm.end():pm.end()+90].strip()}`")
        skipped = len(region[pm.end():]) - len(region[pm.end():].lstrip())
        hstart = pm.end() + skipped
        bopen = hstart + hm.end() - 1
        bclose = match_brace(region, bopen)
        var = hm.group(1)
        loops.append(dict(var=var, lo=lean_expr(hm.group(2), env, None), hi=lean_expr(hm.group(3), env, None),
                          step=int(hm.group(4) or 1), nowait=(clause == "nowait"),
                          body=parse_body(region[bopen + 1:bclose], env, var, cls)))
        pos = bclose + 1
    # anything else in the region that is not a declaration or a loop is outside the subset
    leftover = region
    return dict(loops=loops, private=private, shared_locals=shared_locals, has_if=("if" in m.group(0)))


def other_regions():
    """all `#pragma omp` lines of the no-MUMPS build that are not covered by the schedule model"""
    covered = {r[0] for r in REGIONS}
    out = []
    for root in ("src", "include"):
        for dp, _, fs in os.walk(os.path.join(REPO, root)):
            for f in fs:
                if not f.endswith((".cpp", ".h", ".inl")):
                    continue
                p = os.path.join(dp, f)
                rel = os.path.relpath(p, REPO)
                if "Mumps" in rel or "task_parallelization" in rel or "/DirectSolverGive/" in rel or "/DirectSolverTake/" in rel:
                    continue
                for n, line in enumerate(open(p, errors="replace"), 1):
                    if "#pragma omp" in line and "parallel" in line:
                        if rel in covered and "parallel for" not in line:
                            continue
                        out.append((rel, n, line.strip()))
    return out


def reductions():
    """every shared scalar accumulated in a parallel loop of vector_operations.h must sit in a reduction clause"""
    src = open(os.path.join(REPO, "include/LinearAlgebra/vector_operations.h")).read()
    facts = []
    for m in re.finditer(r"template <typename T>\s*\nT (\w+)\(([^)]*)\)\s*\{(.*?)\n\}", src, flags=re.S):
        body = m.group(3)
        pr = re.search(r"#pragma omp parallel for([^\n]*)", body)
        red = re.search(r"reduction\((\+|max)\s*:\s*(\w+)\)", pr.group(1)) if pr else None
        acc = re.search(r"(\w+)\s*(\+=|=)\s*", body[pr.end():]) if pr else None
        facts.append(dict(fn=m.group(1), parallel=bool(pr), reduction=(red.group(1) if red else None), var=(red.group(2) if red else None)))
    return facts


def main():
    out_path = sys.argv[1] if len(sys.argv) > 1 else os.path.join(os.path.dirname(os.path.dirname(os.path.abspath(__file__))), "lean", "Generated", "Sched.lean")
    lines = ["import GMGModel.Sched", "/-! GENERATED by tools/omp_extract.py from /repo's working tree on every check — do not edit. -/",
             "set_option linter.unusedVariables false", "namespace Sched.Gen", "open Sched", ""]
    summary = {"regions": [], "not_modelled": [], "reductions": reductions()}
    try:
        for path, qual, name, cls in REGIONS:
            r = extract_region(path, qual, cls)
            lines.append(f"/-- `{qual}` ({path}) -/")
            lines.append(f"def {name} : Region := {{ name := \"{qual}\", loops := [")
            ls = []
            for l in r["loops"]:
                ls.append(f"  {{ lo := fun s => {l['lo']}, hi := fun s => {l['hi']}, step := {l['step']}, nowait := {'true' if l['nowait'] else 'false'},\n"
                          f"    body := fun s v => {l['body']} }}")
            lines.append(",\n".join(ls))
            lines.append("] }")
            lines.append(f"def {name}_private : List String := {json.dumps(r['private'])}")
            lines.append("")
            summary["regions"].append(dict(name=name, function=qual, file=path, loops=len(r["loops"]),
                                           nowait=[i for i, l in enumerate(r["loops"]) if l["nowait"]], private=r["private"],
                                           shared_locals=r["shared_locals"]))
        lines.append("def all : List Region := [" + ", ".join(n for _, _, n, _ in REGIONS) + "]")
        lines.append("end Sched.Gen")
    except ExtractError as e:
        print("EXTRACTION FAILED:", e, file=sys.stderr)
        sys.exit(2)
    summary["not_modelled"] = [dict(file=f, line=n, pragma=p) for f, n, p in other_regions()]
    os.makedirs(os.path.dirname(out_path), exist_ok=True)
    new = "\n".join(lines) + "\n"
    old = open(out_path).read() if os.path.exists(out_path) else None
    if new != old:
        open(out_path, "w").write(new)
    json.dump(summary, open(out_path.replace(".lean", ".json"), "w"), indent=1)
    print(json.dumps(dict(regions=len(summary["regions"]), loops=sum(r["loops"] for r in summary["regions"]),
                          not_modelled=len(summary["not_modelled"]), changed=(new != old))))


if __name__ == "__main__":
    main()
