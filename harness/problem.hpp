// Random problem instances built from the repository's own classes: geometry, coefficient profile, grid, level chain.
#pragma once
#include "common.hpp"
#include "GMGPolar/gmgpolar.h"
#include "InputFunctions/DomainGeometry/circularGeometry.h"
#include "InputFunctions/DomainGeometry/shafranovGeometry.h"
#include "InputFunctions/DomainGeometry/czarnyGeometry.h"
#include "InputFunctions/DomainGeometry/culhamGeometry.h"
#include "InputFunctions/DensityProfileCoefficients/poissonCoefficients.h"
#include "InputFunctions/DensityProfileCoefficients/sonnendruckerCoefficients.h"
#include "InputFunctions/DensityProfileCoefficients/sonnendruckerGyroCoefficients.h"
#include "InputFunctions/DensityProfileCoefficients/zoniCoefficients.h"
#include "InputFunctions/DensityProfileCoefficients/zoniGyroCoefficients.h"
#include "InputFunctions/DensityProfileCoefficients/zoniShiftedCoefficients.h"
#include "InputFunctions/DensityProfileCoefficients/zoniShiftedGyroCoefficients.h"
#include <memory>

struct Problem {
    std::string geo_name, coef_name;
    double Rmax = 1.3, R0 = 1e-5;
    std::unique_ptr<DomainGeometry> geo;
    std::unique_ptr<DensityProfileCoefficients> coef;
    std::vector<double> radii, angles;
    bool dirbc = false;
};

inline std::unique_ptr<DomainGeometry> make_geometry(Rng& rng, double Rmax, std::string& name, bool allow_culham = false)
{
    int g = rng.range(0, allow_culham ? 3 : 2);
    if (g == 0) { name = "circular"; return std::make_unique<CircularGeometry>(Rmax); }
    if (g == 1) { double k = rng.uniform(0.0, 0.6), d = rng.uniform(0.0, 0.3); name = "shafranov"; return std::make_unique<ShafranovGeometry>(Rmax, k, d); }
    if (g == 2) { double eps = rng.uniform(0.1, 0.5), e = rng.uniform(1.0, 2.0); name = "czarny"; return std::make_unique<CzarnyGeometry>(Rmax, eps, e); }
    name = "culham"; return std::make_unique<CulhamGeometry>(Rmax);
}
// a user-supplied profile (the properties quantify over "all coefficient profiles with alpha > 0, beta >= 0", not only the shipped
// ones): alpha of a shipped profile, beta = B / alpha with a large B — the reaction term dominates the rows.  The drivers get the
// coefficient values node by node, so nothing on the model side depends on the class.
class UserReactionProfile : public DensityProfileCoefficients
{
public:
    UserReactionProfile(std::unique_ptr<DensityProfileCoefficients> base, double B) : base_(std::move(base)), B_(B) {}
    double alpha(const double& r) const override { return base_->alpha(r); }
    double beta(const double& r) const override { return B_ / base_->alpha(r); }
    double getAlphaJump() const override { return base_->getAlphaJump(); }
private:
    std::unique_ptr<DensityProfileCoefficients> base_;
    double B_;
};
inline std::unique_ptr<DensityProfileCoefficients> make_shipped_coefficients(Rng& rng, double Rmax, std::string& name);
inline std::unique_ptr<DensityProfileCoefficients> make_coefficients(Rng& rng, double Rmax, std::string& name)
{
    auto c = make_shipped_coefficients(rng, Rmax, name);
    if (!rng.coin(0.12)) return c;
    const double B = rng.pick(std::vector<double>{40.0, 4000.0});
    name = "userReaction" + std::to_string((int)B) + "_" + name;
    return std::make_unique<UserReactionProfile>(std::move(c), B);
}
inline std::unique_ptr<DensityProfileCoefficients> make_shipped_coefficients(Rng& rng, double Rmax, std::string& name)
{
    int c = rng.range(0, 6);
    double aj = rng.uniform(0.3, 0.8) * Rmax;
    switch (c) {
    case 0: name = "poisson"; return std::make_unique<PoissonCoefficients>(Rmax, aj);
    case 1: name = "sonnendrucker"; return std::make_unique<SonnendruckerCoefficients>(Rmax, aj);
    case 2: name = "sonnendruckerGyro"; return std::make_unique<SonnendruckerGyroCoefficients>(Rmax, aj);
    case 3: name = "zoni"; return std::make_unique<ZoniCoefficients>(Rmax, aj);
    case 4: name = "zoniGyro"; return std::make_unique<ZoniGyroCoefficients>(Rmax, aj);
    case 5: name = "zoniShifted"; return std::make_unique<ZoniShiftedCoefficients>(Rmax, aj);
    default: name = "zoniShiftedGyro"; return std::make_unique<ZoniShiftedGyroCoefficients>(Rmax, aj);
    }
}

// radii: nr nodes (odd so that the grid can be coarsened), uniform / geometric / jittered, optionally with midpoints;
// angles: nt intervals (nt % 4 == 0 by default), uniform or an antipodally symmetric jittered partition.
inline void make_grid_arrays(Rng& rng, int nr, int nt, double R0, double Rmax, std::vector<double>& radii, std::vector<double>& angles,
                             bool allow_nonuniform_angles = true)
{
    radii.assign(nr, 0.0);
    int rk = rng.range(0, 2);
    for (int i = 0; i < nr; i++) {
        double t = (double)i / (nr - 1);
        radii[i] = (rk == 1 && R0 > 1e-3) ? R0 * std::pow(Rmax / R0, t) : R0 + t * (Rmax - R0);
    }
    if (rk == 2)
        for (int i = 1; i + 1 < nr; i++) radii[i] += 0.5 * (rng.unit() - 0.5) * std::min(radii[i + 1] - radii[i], radii[i] - radii[i - 1]);
    if (rng.coin(0.4))
        for (int i = 1; i + 1 < nr; i += 2) radii[i] = 0.5 * (radii[i - 1] + radii[i + 1]);
    radii[0] = R0; radii[nr - 1] = Rmax;
    angles.assign(nt + 1, 0.0);
    bool uniform = !allow_nonuniform_angles || rng.coin(0.5);
    int half = nt / 2;
    for (int j = 0; j < half; j++) {
        double t = (double)j / half;
        if (!uniform && j > 0) t += 0.5 * (rng.unit() - 0.5) / half;
        angles[j] = t * M_PI;
        angles[j + half] = angles[j] + M_PI;
    }
    angles[0] = 0.0; angles[nt] = 2 * M_PI;
}

inline Problem make_problem(Rng& rng, int nr, int nt, bool allow_culham = false)
{
    Problem p;
    p.R0   = rng.pick(std::vector<double>{1e-8, 1e-5, 1e-2, 0.1, 0.3});
    p.Rmax = rng.pick(std::vector<double>{1.3, 1.3, 1.0, 2.0});
    p.geo  = make_geometry(rng, p.Rmax, p.geo_name, allow_culham);
    p.coef = make_coefficients(rng, p.Rmax, p.coef_name);
    make_grid_arrays(rng, nr, nt, p.R0, p.Rmax, p.radii, p.angles);
    p.dirbc = rng.coin();
    return p;
}

// A chain of levels as GMGPolar::setup builds it: level 0 with a fresh cache, deeper levels inherit the cache.
struct Chain {
    std::vector<std::unique_ptr<Level>> levels;
};
inline Chain make_chain(const Problem& p, int depth, bool cache_coef, bool cache_geo, std::optional<double> split = std::nullopt)
{
    Chain c;
    auto grid  = std::make_unique<PolarGrid>(p.radii, p.angles, split);
    auto cache = std::make_unique<LevelCache>(*grid, *p.coef, *p.geo, cache_coef, cache_geo);
    c.levels.push_back(std::make_unique<Level>(0, std::move(grid), std::move(cache), ExtrapolationType::NONE, true));
    for (int d = 1; d < depth; d++) {
        const PolarGrid& fine = c.levels.back()->grid();
        if (fine.nr() % 2 == 0 || fine.ntheta() % 4 != 0 || fine.ntheta() < 8 || fine.nr() < 9) break;
        auto g  = std::make_unique<PolarGrid>(coarseningGrid(fine));
        auto lc = std::make_unique<LevelCache>(*c.levels.back(), *g);
        c.levels.push_back(std::make_unique<Level>(d, std::move(g), std::move(lc), ExtrapolationType::NONE, true));
    }
    return c;
}

// fields in (i, j) row-major order, independent of the node numbering
inline std::vector<double> to_rowmajor(const PolarGrid& g, const Vector<double>& v)
{
    std::vector<double> out((size_t)g.nr() * g.ntheta());
    for (int i = 0; i < g.nr(); i++) for (int j = 0; j < g.ntheta(); j++) out[(size_t)i * g.ntheta() + j] = v[g.index(i, j)];
    return out;
}
inline Vector<double> from_rowmajor(const PolarGrid& g, const std::vector<double>& v)
{
    Vector<double> out(g.numberOfNodes());
    for (int i = 0; i < g.nr(); i++) for (int j = 0; j < g.ntheta(); j++) out[g.index(i, j)] = v[(size_t)i * g.ntheta() + j];
    return out;
}
inline std::vector<double> random_field(Rng& rng, int n)
{
    std::vector<double> v(n);
    int kind = rng.range(0, 3);
    for (auto& x : v) {
        if (kind == 0) x = (double)rng.range(-5, 5);
        else if (kind == 1) x = std::ldexp(1.0, rng.range(-10, 10)) * (rng.coin() ? 1 : -1);
        else x = rng.uniform(-100.0, 100.0);
    }
    if (kind == 3) { std::fill(v.begin(), v.end(), 0.0); v[rng.range(0, n - 1)] = 1.0; } // one-hot: reads off a matrix column
    return v;
}

// the level record the Lean driver needs: shape, coordinates, Jacobian entries and profile coefficients at the nodes,
// all evaluated through the repository's own geometry / coefficient classes at the level's own nodes
inline void emit_level(const char* tag, const Problem& p, const PolarGrid& g, bool dirbc)
{
    int nr = g.nr(), nt = g.ntheta();
    std::vector<double> J((size_t)nr * nt * 4), al(nr), be(nr);
    for (int i = 0; i < nr; i++) {
        double r = g.radius(i);
        al[i] = p.coef->alpha(r);
        be[i] = p.coef->beta(r);
        for (int j = 0; j < nt; j++) {
            double th = g.theta(j), s = sin(th), c = cos(th);
            size_t b = ((size_t)i * nt + j) * 4;
            J[b] = p.geo->dFx_dr(r, th, s, c); J[b + 1] = p.geo->dFy_dr(r, th, s, c);
            J[b + 2] = p.geo->dFx_dt(r, th, s, c); J[b + 3] = p.geo->dFy_dt(r, th, s, c);
        }
    }
    printf("%s nr=%d nt=%d nc=%d bc=%d geo=%s coef=%s radii=%s angles=%s J=%s alpha=%s beta=%s\n", tag, nr, nt, g.numberSmootherCircles(), (int)dirbc,
           p.geo_name.c_str(), p.coef_name.c_str(), hexvec(g.radii()).c_str(), hexvec(g.angles()).c_str(), hexvec(J).c_str(), hexvec(al).c_str(), hexvec(be).c_str());
}
