// C12 harness: reproducibility and thread-count independence of every operator, the vector kernels around their
// parallelisation threshold, and of a whole solve after a fixed number of cycles.
//   h_par ops <cases> <nr> <nt>      operators at threads 1,2,3,4,7,16,32, three repeats each
//   h_par vec                        vector kernels at n = 9999, 10000, 10001, 65536 and threads 1,4,7
//   h_par solve <cases>              setup()+solve() with a fixed number of cycles at threads 1,2,4,7 (+ reduction factors)
#include "problem.hpp"
#include "Residual/ResidualGive/residualGive.h"
#include "Residual/ResidualTake/residualTake.h"
#include <map>
#include "vec_mode.hpp"

static uint64_t hash_vec(const Vector<double>& v)
{
    uint64_t h = 1469598103934665603ULL;
    for (int i = 0; i < v.size(); i++) { uint64_t b; double d = v[i]; memcpy(&b, &d, 8); h = (h ^ b) * 1099511628211ULL; }
    return h;
}
static double max_rel_diff(const Vector<double>& a, const Vector<double>& b)
{
    double m = 0, s = 0;
    for (int i = 0; i < a.size(); i++) { m = std::max(m, std::abs(a[i] - b[i])); s = std::max(s, std::abs(a[i])); }
    return s > 0 ? m / s : m;
}

static int mode_ops(int cases, int nr, int nt)
{
    Rng rng(seed_from_env());
    const std::vector<int> threads = {1, 2, 3, 4, 7, 16, 32};
    for (int c = 0; c < cases; c++) {
        Problem p = make_problem(rng, nr, nt);
        Chain ch = make_chain(p, 2, true, true);
        Level& L = *ch.levels[0];
        const PolarGrid& g = L.grid();
        int N = g.numberOfNodes();
        std::vector<double> x = random_field(rng, N), f = random_field(rng, N);
        struct Op { const char* name; std::function<Vector<double>(int)> run; };
        std::vector<Op> ops;
        ops.push_back({"residual-give", [&](int t) { ResidualGive R(g, L.levelCache(), *p.geo, *p.coef, p.dirbc, t); Vector<double> o(N); R.computeResidual(o, from_rowmajor(g, f), from_rowmajor(g, x)); return o; }});
        ops.push_back({"residual-take", [&](int t) { ResidualTake R(g, L.levelCache(), *p.geo, *p.coef, p.dirbc, t); Vector<double> o(N); R.computeResidual(o, from_rowmajor(g, f), from_rowmajor(g, x)); return o; }});
        for (int strat = 0; strat < 2; strat++) {
            auto method = strat == 0 ? StencilDistributionMethod::CPU_GIVE : StencilDistributionMethod::CPU_TAKE;
            ops.push_back({strat == 0 ? "smoother-give" : "smoother-take", [&, method](int t) { L.initializeSmoothing(*p.geo, *p.coef, p.dirbc, t, method); Vector<double> xv = from_rowmajor(g, x), tmp(N); L.smoothing(xv, from_rowmajor(g, f), tmp); return xv; }});
            if (g.numberSmootherCircles() >= 3)
                ops.push_back({strat == 0 ? "exsmoother-give" : "exsmoother-take", [&, method](int t) { L.initializeExtrapolatedSmoothing(*p.geo, *p.coef, p.dirbc, t, method); Vector<double> xv = from_rowmajor(g, x), tmp(N); L.extrapolatedSmoothing(xv, from_rowmajor(g, f), tmp); return xv; }});
            if (N <= 1200)
                ops.push_back({strat == 0 ? "direct-give" : "direct-take", [&, method](int t) { L.initializeDirectSolver(*p.geo, *p.coef, p.dirbc, t, method); Vector<double> b = from_rowmajor(g, f); L.directSolveInPlace(b); return b; }});
        }
        if (ch.levels.size() > 1) {
            Level& C = *ch.levels[1];
            int Nc = C.grid().numberOfNodes();
            std::vector<double> xc = random_field(rng, Nc);
            ops.push_back({"prolong", [&, xc](int t) { std::vector<int> tpl{t, t}; Interpolation I(tpl, p.dirbc); Vector<double> o(N); I.applyProlongation(C, L, o, from_rowmajor(C.grid(), xc)); return o; }});
            ops.push_back({"restrict", [&](int t) { std::vector<int> tpl{t, t}; Interpolation I(tpl, p.dirbc); Vector<double> o(Nc); I.applyRestriction(L, C, o, from_rowmajor(g, x)); return o; }});
            ops.push_back({"fmg", [&, xc](int t) { std::vector<int> tpl{t, t}; Interpolation I(tpl, p.dirbc); Vector<double> o(N); I.applyFMGInterpolation(C, L, o, from_rowmajor(C.grid(), xc)); return o; }});
        }
        for (auto& op : ops) {
            Vector<double> ref1 = op.run(1);
            std::string hs;
            double worst_vs_1 = 0;
            bool repeat_ok = true;
            uint64_t h_multi = 0;
            bool multi_same = true;
            for (int t : threads) {
                uint64_t h0 = 0;
                for (int rep = 0; rep < 3; rep++) {
                    Vector<double> o = op.run(t);
                    uint64_t h = hash_vec(o);
                    if (rep == 0) { h0 = h; worst_vs_1 = std::max(worst_vs_1, max_rel_diff(ref1, o)); }
                    else if (h != h0) repeat_ok = false;
                }
                if (t >= 2) { if (h_multi == 0) h_multi = h0; else if (h0 != h_multi) multi_same = false; }
                char b[40]; snprintf(b, sizeof b, "%d:%016llx,", t, (unsigned long long)h0); hs += b;
            }
            printf("PAR op=%s nr=%d nt=%d N=%d repeats_identical=%d threads_ge2_identical=%d one_thread_identical=%d worst_vs_1=%s hashes=%s\n", op.name, g.nr(), g.ntheta(), N,
                   (int)repeat_ok, (int)multi_same, (int)(hash_vec(ref1) == h_multi), hex(worst_vs_1).c_str(), hs.c_str());
        }
    }
    printf("end\n");
    return 0;
}

// the residual operators alone on every small shape class incl. ntheta = 2 mod 4 (which the smoothers do not admit), many repeats:
// a data race between two lines of one colour phase shows as run-to-run or thread-count dependence of the result
static int mode_resid(int repeats)
{
    Rng rng(seed_from_env());
    for (int nr : {5, 9})
        for (int nt : {4, 6, 8, 10, 12, 14, 16}) {
            Problem p = make_problem(rng, nr, nt);
            Chain ch = make_chain(p, 1, true, true);
            Level& L = *ch.levels[0];
            const PolarGrid& g = L.grid();
            int N = g.numberOfNodes();
            std::vector<double> x = random_field(rng, N), f = random_field(rng, N);
            for (int give = 1; give >= 0; give--) {
                auto run = [&](int t) {
                    Vector<double> o(N);
                    if (give) { ResidualGive R(g, L.levelCache(), *p.geo, *p.coef, p.dirbc, t); R.computeResidual(o, from_rowmajor(g, f), from_rowmajor(g, x)); }
                    else { ResidualTake R(g, L.levelCache(), *p.geo, *p.coef, p.dirbc, t); R.computeResidual(o, from_rowmajor(g, f), from_rowmajor(g, x)); }
                    return o;
                };
                Vector<double> ref1 = run(1);
                std::string hs;
                double worst_vs_1 = 0;
                bool repeat_ok = true, multi_same = true;
                uint64_t h_multi = 0;
                for (int t : {1, 2, 3, 4, 7}) {
                    uint64_t h0 = 0;
                    for (int rep = 0; rep < repeats; rep++) {
                        Vector<double> o = run(t);
                        uint64_t h = hash_vec(o);
                        worst_vs_1 = std::max(worst_vs_1, max_rel_diff(ref1, o));
                        if (rep == 0) h0 = h;
                        else if (h != h0) repeat_ok = false;
                    }
                    if (t >= 2) { if (h_multi == 0) h_multi = h0; else if (h0 != h_multi) multi_same = false; }
                    char b[40]; snprintf(b, sizeof b, "%d:%016llx,", t, (unsigned long long)h0); hs += b;
                }
                printf("PAR op=%s nr=%d nt=%d N=%d repeats_identical=%d threads_ge2_identical=%d one_thread_identical=%d worst_vs_1=%s hashes=%s\n", give ? "residual-give" : "residual-take", g.nr(), g.ntheta(), N,
                       (int)repeat_ok, (int)multi_same, (int)(hash_vec(ref1) == h_multi), hex(worst_vs_1).c_str(), hs.c_str());
            }
        }
    printf("end\n");
    return 0;
}

static int mode_solve(int cases)
{
    Rng rng(seed_from_env());
    for (int c = 0; c < cases; c++) {
        std::map<std::string, std::string> kv;
        auto set = [&](const std::string& k, double v) { char b[64]; snprintf(b, sizeof b, "%.17g", v); kv[k] = b; };
        set("verbose", 0); set("nr_exp", rng.coin(0.7) ? 5 : 6); set("geometry", rng.range(0, 2)); set("kappa_eps", 0.3); set("delta_e", rng.coin() ? 0.2 : 1.4);
        if (kv["geometry"] == "2") set("delta_e", 1.4); else set("delta_e", 0.2);
        set("problem", rng.range(0, 2)); set("alpha_coeff", rng.range(0, 3)); set("beta_coeff", rng.range(0, 1)); set("alpha_jump", 0.7081 * 1.3);
        set("DirBC_Interior", rng.range(0, 1)); set("stencilDistributionMethod", rng.range(0, 1)); set("extrapolation", rng.pick(std::vector<int>{0, 1, 3}));
        set("FMG", rng.range(0, 1)); set("multigridCycle", rng.range(0, 2)); set("maxIterations", 2); set("absoluteTolerance", -1); set("relativeTolerance", -1);
        // the share of threads per level must not change WHAT is computed (hierarchy depth, operators), only how it is distributed
        set("threadReductionFactor", rng.pick(std::vector<double>{1.0, 0.5, 0.6, 0.3}));
        std::string hs;
        uint64_t h_multi = 0, h1 = 0;
        bool multi_same = true, repeat_ok = true;
        double worst = 0;
        Vector<double> ref;
        for (int t : {1, 2, 4, 7}) {
            uint64_t h0 = 0;
            for (int rep = 0; rep < 2; rep++) {
                set("maxOpenMPThreads", t);
                std::vector<std::string> a{"gmgpolar"};
                for (auto& e : kv) { a.push_back("--" + e.first); a.push_back(e.second); }
                std::vector<char*> argv;
                for (auto& s : a) argv.push_back(const_cast<char*>(s.c_str()));
                GMGPolar g;
                g.setParameters((int)argv.size(), argv.data());
                g.setup();
                g.solve();
                uint64_t h = hash_vec(g.solution());
                if (rep == 0) { h0 = h; if (t == 1) { ref = g.solution(); h1 = h; } else worst = std::max(worst, max_rel_diff(ref, g.solution())); }
                else if (h != h0) repeat_ok = false;
            }
            if (t >= 2) { if (h_multi == 0) h_multi = h0; else if (h0 != h_multi) multi_same = false; }
            char b[40]; snprintf(b, sizeof b, "%d:%016llx,", t, (unsigned long long)h0); hs += b;
        }
        std::string o; for (auto& e : kv) o += "--" + e.first + " " + e.second + " ";
        printf("PAR op=solve-2-cycles nr=0 nt=0 N=0 repeats_identical=%d threads_ge2_identical=%d one_thread_identical=%d worst_vs_1=%s hashes=%s opts=[%s]\n", (int)repeat_ok, (int)multi_same,
               (int)(h1 == h_multi), hex(worst).c_str(), hs.c_str(), o.c_str());
    }
    printf("end\n");
    return 0;
}

int main(int argc, char** argv)
{
    std::string mode = argc > 1 ? argv[1] : "";
    printf("seed %llu\n", (unsigned long long)seed_from_env());
    if (mode == "ops") return mode_ops(argc > 2 ? atoi(argv[2]) : 3, argc > 3 ? atoi(argv[3]) : 17, argc > 4 ? atoi(argv[4]) : 32);
    if (mode == "vec") return mode_vec();
    if (mode == "resid") return mode_resid(argc > 2 ? atoi(argv[2]) : 20);
    if (mode == "solve") return mode_solve(argc > 2 ? atoi(argv[2]) : 3);
    fprintf(stderr, "usage: h_par ops|vec|solve\n");
    return 2;
}
