// Correspondence harness for the header-only linear algebra (C14, C15, C16).
//   h_linalg tridiag <cases> <max_n>     real SymmetricTridiagonalSolver<double> on SPD families
//   h_linalg lu <cases> <max_n>          real SparseMatrixCSR + SparseLUSolver
//   h_linalg objects <histories> <len>   random histories of construct/set/solve/copy/move on all six classes
//   h_linalg lu-exit                     the `std::exit` branch of SparseLUSolver::solveInPlace (child process)
#include "common.hpp"
#include "LinearAlgebra/vector.h"
#include "LinearAlgebra/coo_matrix.h"
#include "LinearAlgebra/csr_matrix.h"
#include "LinearAlgebra/diagonalSolver.h"
#include "LinearAlgebra/sparseLUSolver.h"
#include "LinearAlgebra/symmetricTridiagonalSolver.h"
#include <sstream>
#include <sys/wait.h>
#include <unistd.h>
#include <array>
#include <numeric>

// ------------------------------------------------------------------------------------------------ tridiag
static double pick_value(Rng& rng)
{
    int k = rng.range(0, 3);
    if (k == 0) return (double)rng.range(-4, 4);
    if (k == 1) return std::ldexp(1.0, rng.range(-6, 6)) * (rng.coin() ? 1 : -1);
    return rng.uniform(-3.0, 3.0);
}

struct TriSys {
    int n;
    bool cyclic;
    bool wc; // strictly diagonally dominant (well conditioned): stored factors are compared entrywise
    std::vector<double> a, b;
    double c;
    std::string family;
};

// right-hand sides: mostly dense random, but also the sparse ones a line relaxation really produces (unit vectors, a zero head, a
// zero tail, all zero) — a solve that short-cuts on zeros must still return the solution
static void gen_rhs(Rng& rng, std::vector<double>& rhs)
{
    const int n = (int)rhs.size();
    for (auto& v : rhs) v = std::ldexp(rng.uniform(-1, 1), rng.range(-8, 8));
    if (n == 0) return;
    const double u = rng.unit();
    if (u < 0.60) return;
    if (u < 0.72) { int j = rng.range(0, n - 1); double keep = rhs[j]; for (auto& v : rhs) v = 0.0; rhs[j] = rng.coin() ? 1.0 : keep; return; }
    if (u < 0.82) { int k = rng.range(1, n); for (int i = 0; i < k && i < n - 1; i++) rhs[i] = 0.0; return; }          // zero head
    if (u < 0.92) { int k = rng.range(1, n); for (int i = 0; i < k && i < n - 1; i++) rhs[n - 1 - i] = 0.0; return; }  // zero tail
    if (u < 0.96) { for (auto& v : rhs) v = 0.0; return; }
    for (auto& v : rhs) v = (double)rng.range(-3, 3);
}
static TriSys gen_tridiag(Rng& rng, int max_n)
{
    static const std::vector<int> sizes = {2, 3, 4, 5, 8, 16, 31, 64, 257};
    TriSys s;
    do { s.n = rng.pick(sizes); } while (s.n > max_n);
    s.cyclic = rng.coin();
    s.c      = 0.0;
    int n    = s.n;
    s.a.assign(n, 0.0);
    s.b.assign(n - 1, 0.0);
    int fam = rng.range(0, 5);
    const int fam0 = fam;
    if (fam == 4) fam = rng.coin() ? 0 : 1; // "tiny": the whole system scaled by 2^-k afterwards (exact in binary floating point)
    if (fam == 5) fam = 0;                  // "weak-corner": cyclic, wrap-around coupling many orders below the other entries
    if (fam == 0 || fam == 3) { // strictly diagonally dominant
        s.family = fam == 0 ? "sdd" : "sdd-zero-sub";
        for (int i = 0; i < n - 1; i++) s.b[i] = (fam == 3 && rng.coin(0.4)) ? 0.0 : pick_value(rng);
        if (s.cyclic) s.c = pick_value(rng);
        for (int i = 0; i < n; i++) {
            double off = (i > 0 ? std::abs(s.b[i - 1]) : 0.0) + (i < n - 1 ? std::abs(s.b[i]) : 0.0);
            if (s.cyclic && (i == 0 || i == n - 1)) off += std::abs(s.c);
            s.a[i] = off + rng.uniform(0.1, 2.0);
        }
        s.wc = true;
    }
    else { // L D L^T with unit lower bidiagonal L, positive D (SPD, possibly far from diagonally dominant)
        s.family = fam == 1 ? "ldlt" : "ldlt-scaled";
        std::vector<double> d(n), l(n - 1);
        for (int i = 0; i < n; i++) d[i] = rng.uniform(0.2, 3.0);
        for (int i = 0; i < n - 1; i++) l[i] = rng.uniform(-1.5, 1.5);
        for (int i = 0; i < n; i++) s.a[i] = d[i] + (i > 0 ? l[i - 1] * l[i - 1] * d[i - 1] : 0.0);
        for (int i = 0; i < n - 1; i++) s.b[i] = l[i] * d[i];
        if (s.cyclic) { // add |c| (e0 + sign(c) e_{n-1})(...)^T, positive semi-definite
            s.c = rng.uniform(-1.0, 1.0);
            s.a[0] += std::abs(s.c);
            s.a[n - 1] += std::abs(s.c);
        }
        s.wc = false;
        if (fam == 2) { // symmetric scaling D A D over ten decades, keeps SPD
            std::vector<double> sc(n);
            for (int i = 0; i < n; i++) sc[i] = std::ldexp(1.0, rng.range(-17, 17));
            for (int i = 0; i < n; i++) s.a[i] *= sc[i] * sc[i];
            for (int i = 0; i < n - 1; i++) s.b[i] *= sc[i] * sc[i + 1];
            s.c *= sc[0] * sc[n - 1];
        }
    }
    if (fam0 == 4) { // all rows small: symmetric scaling D A D with d_i in [2^-17, 2^-10] (about 1e-5 … 1e-3, the range of C14's quantifier)
        s.family += "-small-rows";
        std::vector<double> sc(n);
        for (int i = 0; i < n; i++) sc[i] = std::ldexp(1.0, -rng.range(10, 17));
        for (int i = 0; i < n; i++) s.a[i] *= sc[i] * sc[i];
        for (int i = 0; i < n - 1; i++) s.b[i] *= sc[i] * sc[i + 1];
        s.c *= sc[0] * sc[n - 1];
    }
    if (fam0 == 5) { // cyclic with a wrap-around coupling a few orders below the other entries, rows optionally scaled down to ~1e-5:
                     // the corner then crosses every absolute threshold of the code base (1e-12 … 2.2e-13) while all pivots stay far above
        s.family = "weak-corner";
        s.cyclic = true;
        s.c = std::ldexp(rng.uniform(0.5, 1.0), -rng.range(3, 14)) * (rng.coin() ? 1 : -1);
        s.a[0] += std::abs(s.c); s.a[n - 1] += std::abs(s.c); // keeps strict diagonal dominance
        if (rng.coin(0.7)) {
            double sc = std::ldexp(1.0, -rng.range(10, 17));
            for (auto& v : s.a) v *= sc * sc;
            for (auto& v : s.b) v *= sc * sc;
            s.c *= sc * sc;
        }
    }
    return s;
}

static void fill(SymmetricTridiagonalSolver<double>& t, const TriSys& s)
{
    t.is_cyclic(s.cyclic);
    for (int i = 0; i < s.n; i++) t.main_diagonal(i) = s.a[i];
    for (int i = 0; i < s.n - 1; i++) t.sub_diagonal(i) = s.b[i];
    if (s.cyclic) t.cyclic_corner_element() = s.c;
}

static int mode_tridiag(int cases, int max_n)
{
    Rng rng(seed_from_env());
    // object history: as the smoothers' buildMatrix does, a solver slot is RE-ASSIGNED (move assignment of a fresh solver of the new
    // dimension over a slot that has already factorised and solved another system), in two of three cases; every fifth case the
    // filled-and-used solver is additionally moved into a second used slot before its last solves
    SymmetricTridiagonalSolver<double> slot, slot2;
    for (int c = 0; c < cases; c++) {
        TriSys s = gen_tridiag(rng, max_n);
        SymmetricTridiagonalSolver<double> fresh_obj(s.n);
        const bool reuse = c % 3 != 0;
        if (reuse) slot = SymmetricTridiagonalSolver<double>(s.n);
        SymmetricTridiagonalSolver<double>* tp = reuse ? &slot : &fresh_obj;
        fill(*tp, s);
        printf("T %d %d %d fam=%s main=%s sub=%s corner=%s\n", s.n, (int)s.cyclic, (int)s.wc, s.family.c_str(),
               hexvec(s.a).c_str(), hexvec(s.b).c_str(), hex(s.c).c_str());
        int k = rng.range(1, 4);
        std::vector<double> rhs(s.n), prev;
        for (int r = 0; r < k; r++) {
            bool repeat = r > 0 && rng.coin(0.5);
            if (!repeat) gen_rhs(rng, rhs);
            std::vector<double> x = rhs, t1(s.n), t2(s.n);
            tp->solveInPlace(x.data(), t1.data(), t2.data());
            printf("S rep=%d rhs=%s x=%s\n", (int)repeat, hexvec(rhs).c_str(), hexvec(x).c_str());
            // the used (factorised) solver moves on into another used slot and keeps solving there
            if (r == 0 && c % 5 == 4) { slot2 = std::move(*tp); tp = &slot2; }
        }
        SymmetricTridiagonalSolver<double>& t = *tp;
        std::vector<double> pm(s.n), ps(s.n - 1);
        for (int i = 0; i < s.n; i++) pm[i] = t.main_diagonal(i);
        for (int i = 0; i < s.n - 1; i++) ps[i] = t.sub_diagonal(i);
        printf("P main=%s sub=%s\n", hexvec(pm).c_str(), hexvec(ps).c_str());
        printf("E\n");
    }
    printf("end\n");
    return 0;
}

// ------------------------------------------------------------------------------------------------ lu
struct SpMat {
    int n;
    std::vector<std::vector<std::pair<int, double>>> rows; // storage order within a row
    std::string family;
};

static SpMat gen_sparse(Rng& rng, int max_n)
{
    SpMat m;
    m.n       = rng.coin(0.15) ? rng.range(1, 3) : rng.range(1, max_n);
    int n     = m.n;
    int fam   = rng.range(0, 3);
    m.family  = fam == 0 ? "banded" : fam == 1 ? "arrow" : fam == 2 ? "random" : "dense-ish";
    m.rows.resize(n);
    std::vector<std::vector<double>> D(n, std::vector<double>(n, 0.0));
    std::vector<std::vector<char>> P(n, std::vector<char>(n, 0));
    int bw = rng.range(1, 3);
    for (int i = 0; i < n; i++)
        for (int j = 0; j < n; j++) {
            bool on = false;
            if (fam == 0) on = std::abs(i - j) <= bw;
            else if (fam == 1) on = (i == j) || i == n - 1 || j == n - 1 || j == 0 || (i == 0);
            else if (fam == 2) on = (i == j) || rng.coin(std::min(1.0, 3.0 / n));
            else on = rng.coin(0.7) || i == j;
            if (on) { P[i][j] = 1; D[i][j] = (i == j) ? 0.0 : pick_value(rng); }
        }
    // strictly diagonally dominant rows (=> LU without pivoting exists), non-symmetric values
    for (int i = 0; i < n; i++) {
        double off = 0;
        for (int j = 0; j < n; j++) if (j != i) off += std::abs(D[i][j]);
        D[i][i] = (off + rng.uniform(0.1, 2.0)) * (rng.coin(0.3) ? -1 : 1);
    }
    // row scaling over many orders of magnitude
    bool scale = rng.coin(0.4);
    for (int i = 0; i < n; i++) {
        double sc = scale ? std::ldexp(1.0, rng.range(-26, 26)) : 1.0;
        std::vector<std::pair<int, double>> r;
        for (int j = 0; j < n; j++)
            if (P[i][j]) r.push_back({j, D[i][j] * sc});
            else if (rng.coin(0.05)) r.push_back({j, 0.0}); // explicitly stored zero
        // unsorted column order
        for (int k = (int)r.size() - 1; k > 0; k--) std::swap(r[k], r[rng.range(0, k)]);
        m.rows[i] = r;
    }
    return m;
}

static void emit_lu_case(const SpMat& m, bool trip_ctor, Rng& rng, int nrhs)
{
    using triplet = SparseMatrixCSR<double>::triplet_type;
    std::vector<double> vals;
    std::vector<int> cols, rp{0};
    std::vector<triplet> trips;
    for (int i = 0; i < m.n; i++) {
        for (auto& e : m.rows[i]) { vals.push_back(e.second); cols.push_back(e.first); trips.push_back({i, e.first, e.second}); }
        rp.push_back((int)vals.size());
    }
    SparseMatrixCSR<double> A = trip_ctor ? SparseMatrixCSR<double>(m.n, m.n, trips) : SparseMatrixCSR<double>(m.n, m.n, vals, cols, rp);
    // report the container as the real object exposes it
    std::string srp, scol;
    std::vector<double> v2;
    for (int i = 0; i <= m.n; i++) { if (i) srp += ','; srp += std::to_string(A.row_start_indices_data()[i]); }
    for (int i = 0; i < m.n; i++)
        for (int k = 0; k < A.row_nz_size(i); k++) { if (!scol.empty()) scol += ','; scol += std::to_string(A.row_nz_index(i, k)); v2.push_back(A.row_nz_entry(i, k)); }
    // the triplet list handed to the constructor (rows, cols, values), for the model's own constructor
    std::string trow;
    for (size_t k = 0; k < trips.size(); k++) { if (k) trow += ','; trow += std::to_string(std::get<0>(trips[k])); }
    printf("L %d ctor=%s fam=%s trows=%s rowptr=%s cols=%s vals=%s\n", m.n, trip_ctor ? "trip" : "arr", m.family.c_str(), trow.c_str(),
           srp.c_str(), scol.c_str(), hexvec(v2).c_str());
    SparseLUSolver<double> lu(A);
    for (int r = 0; r < nrhs; r++) {
        std::vector<double> rhs(m.n);
        gen_rhs(rng, rhs);
        Vector<double> x(rhs);
        lu.solveInPlace(x);
        printf("S rhs=%s x=%s\n", hexvec(rhs).c_str(), hexvec(x, m.n).c_str());
    }
    printf("E\n");
}

// large systems (the exact model solve is out of reach there): non-symmetric, strictly diagonally dominant lattice matrices with rows
// scaled over six orders of magnitude, shuffled column order, a stored zero per row; the backward error of every solve is computed
// here in long double.  Sizes straddle the powers of two and the 10 000 mark at which other parts of the library switch code paths.
static void lu_big(Rng& rng, bool thorough)
{
    using triplet = SparseMatrixCSR<double>::triplet_type;
    std::vector<std::pair<int, int>> shapes = {{33, 31}, {42, 50}, {51, 51}, {65, 65}};
    if (thorough) { shapes.push_back({101, 101}); shapes.push_back({128, 90}); }
    for (auto [a, b] : shapes) {
        int n = a * b;
        std::vector<std::vector<std::pair<int, double>>> rows(n);
        for (int i = 0; i < n; i++) {
            int p = i / b, q = i % b;
            std::vector<std::pair<int, double>> r;
            double off = 0;
            auto add = [&](int pp, int qq) { if (pp < 0 || pp >= a || qq < 0 || qq >= b) return; double v = rng.uniform(-1.0, 1.0); if (rng.coin(0.1)) v = 0.0; r.push_back({pp * b + qq, v}); off += std::abs(v); };
            add(p - 1, q); add(p + 1, q); add(p, q - 1); add(p, q + 1);
            if (rng.coin(0.3)) add(p - 1, q + 1);
            r.push_back({i, (off + rng.uniform(0.5, 1.5)) * (rng.coin() ? 1 : -1)});
            double sc = std::pow(10.0, rng.uniform(-3.0, 3.0));
            for (auto& e : r) e.second *= sc;
            for (size_t k = r.size(); k > 1; k--) std::swap(r[k - 1], r[rng.range(0, (int)k - 1)]);
            rows[i] = r;
        }
        for (int ctor = 0; ctor < 2; ctor++) {
            std::vector<double> vals; std::vector<int> cols, rp{0}; std::vector<triplet> trips;
            for (int i = 0; i < n; i++) { for (auto& e : rows[i]) { vals.push_back(e.second); cols.push_back(e.first); trips.push_back({i, e.first, e.second}); } rp.push_back((int)vals.size()); }
            SparseMatrixCSR<double> A = ctor ? SparseMatrixCSR<double>(n, n, trips) : SparseMatrixCSR<double>(n, n, vals, cols, rp);
            SparseLUSolver<double> lu(A);
            for (int rr = 0; rr < 2; rr++) {
                std::vector<double> rhs(n);
                for (auto& v : rhs) v = std::ldexp(rng.uniform(-1, 1), rng.range(-8, 8));
                Vector<double> x(rhs);
                lu.solveInPlace(x);
                long double worst = 0;
                bool finite = true;
                for (int i = 0; i < n; i++) {
                    long double ax = 0, mag = std::abs((long double)rhs[i]);
                    for (auto& e : rows[i]) { ax += (long double)e.second * x[e.first]; mag += std::abs((long double)e.second * x[e.first]); }
                    if (!std::isfinite(x[i])) finite = false;
                    if (mag > 0) worst = std::max(worst, std::abs(ax - (long double)rhs[i]) / mag);
                }
                printf("LUBIG n=%d ctor=%s rhs_no=%d backward_error=%s finite=%d\n", n, ctor ? "trip" : "arr", rr, hex((double)worst).c_str(), (int)finite);
            }
        }
    }
}

static int mode_lu(int cases, int max_n)
{
    Rng rng(seed_from_env());
    for (int c = 0; c < cases; c++) {
        SpMat m = gen_sparse(rng, max_n);
        emit_lu_case(m, rng.coin(), rng, rng.range(1, 3));
    }
    lu_big(rng, cases >= 2000);
    printf("end\n");
    return 0;
}

// The `abs(diag) < 1e-12 -> std::exit` branch, observed from a child process.
static int mode_lu_exit()
{
    struct Probe { const char* name; double diag; };
    for (Probe p : {Probe{"1e-13*I", 1e-13}, Probe{"1e-11*I", 1e-11}, Probe{"I", 1.0}}) {
        fflush(stdout);
        pid_t pid = fork();
        if (pid == 0) {
            using triplet = SparseMatrixCSR<double>::triplet_type;
            std::vector<triplet> t{{0, 0, p.diag}, {1, 1, p.diag}};
            SparseMatrixCSR<double> A(2, 2, t);
            SparseLUSolver<double> lu(A);
            Vector<double> b(2);
            b[0] = p.diag; b[1] = 2 * p.diag;
            fclose(stderr);
            lu.solveInPlace(b);
            printf("X %s diag=%s solved x=%s\n", p.name, hex(p.diag).c_str(), hexvec(b, 2).c_str());
            fflush(stdout);
            _exit(0);
        }
        int st = 0;
        waitpid(pid, &st, 0);
        if (!(WIFEXITED(st) && WEXITSTATUS(st) == 0))
            printf("X %s diag=%s exit status=%d\n", p.name, hex(p.diag).c_str(), WIFEXITED(st) ? WEXITSTATUS(st) : -1);
    }
    printf("end\n");
    return 0;
}

// ------------------------------------------------------------------------------------------------ objects
// Four slots per class.  After every operation the public observables of every slot of that class are
// printed, plus which slots share storage.  `factorized_` is private; it is visible through operator<<.
static const int NS = 4;

template <class V> static std::string vhex(const V& v, int n) { return n > 0 ? hexvec(v, (size_t)n) : std::string("-"); }

struct ObjVec {
    Vector<double> s[NS];
    void obs() {
        for (int k = 0; k < NS; k++) printf("OBS vec %d size=%d vals=%s\n", k, s[k].size(), vhex(s[k], s[k].size()).c_str());
        for (int a = 0; a < NS; a++) for (int b = a + 1; b < NS; b++)
            if (s[a].begin() && s[a].begin() == s[b].begin()) printf("ALIAS vec %d %d\n", a, b);
    }
};
struct ObjDiag {
    DiagonalSolver<double> s[NS];
    void obs() {
        for (int k = 0; k < NS; k++) {
            std::vector<double> d(s[k].rows());
            for (int i = 0; i < s[k].rows(); i++) d[i] = s[k].diagonal(i);
            printf("OBS diag %d n=%d vals=%s\n", k, s[k].rows(), vhex(d, s[k].rows()).c_str());
        }
        for (int a = 0; a < NS; a++) for (int b = a + 1; b < NS; b++)
            if (s[a].rows() > 0 && s[b].rows() > 0 && &s[a].diagonal(0) == &s[b].diagonal(0)) printf("ALIAS diag %d %d\n", a, b);
    }
};
struct ObjTri {
    SymmetricTridiagonalSolver<double> s[NS];
    static bool factorized(const SymmetricTridiagonalSolver<double>& t) {
        std::ostringstream os; os << t;
        return os.str().find("L Factor") != std::string::npos;
    }
    void obs() {
        for (int k = 0; k < NS; k++) {
            int n = s[k].rows();
            std::vector<double> m(n), sb(n > 0 ? n - 1 : 0);
            for (int i = 0; i < n; i++) m[i] = s[k].main_diagonal(i);
            for (int i = 0; i < n - 1; i++) sb[i] = s[k].sub_diagonal(i);
            printf("OBS tri %d n=%d cyc=%d fact=%d corner=%s main=%s sub=%s\n", k, n, (int)s[k].is_cyclic(), n > 0 ? (int)factorized(s[k]) : 0,
                   s[k].is_cyclic() ? hex(s[k].cyclic_corner_element()).c_str() : "-", vhex(m, n).c_str(), vhex(sb, n - 1).c_str());
        }
        for (int a = 0; a < NS; a++) for (int b = a + 1; b < NS; b++)
            if (s[a].rows() > 0 && s[b].rows() > 0 && &s[a].main_diagonal(0) == &s[b].main_diagonal(0)) printf("ALIAS tri %d %d\n", a, b);
    }
};
struct ObjCSR {
    SparseMatrixCSR<double> s[NS];
    void obs() {
        for (int k = 0; k < NS; k++) {
            int nnz = s[k].non_zero_size(), rows = s[k].rows();
            std::string rp = "-", ci = "-";
            if (s[k].row_start_indices_data()) { rp.clear(); for (int i = 0; i <= rows; i++) { if (i) rp += ','; rp += std::to_string(s[k].row_start_indices_data()[i]); } }
            if (nnz > 0) { ci.clear(); for (int i = 0; i < nnz; i++) { if (i) ci += ','; ci += std::to_string(s[k].column_indices_data()[i]); } }
            printf("OBS csr %d rows=%d cols=%d nnz=%d rowptr=%s colidx=%s vals=%s\n", k, rows, s[k].columns(), nnz, rp.c_str(), ci.c_str(),
                   nnz > 0 ? hexvec(s[k].values_data(), (size_t)nnz).c_str() : "-");
        }
        for (int a = 0; a < NS; a++) for (int b = a + 1; b < NS; b++)
            if (s[a].values_data() && s[a].values_data() == s[b].values_data()) printf("ALIAS csr %d %d\n", a, b);
    }
};
struct ObjCOO {
    SparseMatrixCOO<double> s[NS];
    void obs() {
        for (int k = 0; k < NS; k++) {
            int nnz = s[k].non_zero_size();
            std::string ri = "-", ci = "-";
            if (nnz > 0) { ri.clear(); ci.clear(); for (int i = 0; i < nnz; i++) { if (i) { ri += ','; ci += ','; } ri += std::to_string(s[k].row_index(i)); ci += std::to_string(s[k].col_index(i)); } }
            printf("OBS coo %d rows=%d cols=%d nnz=%d sym=%d rowidx=%s colidx=%s vals=%s\n", k, s[k].rows(), s[k].columns(), nnz, (int)s[k].is_symmetric(),
                   ri.c_str(), ci.c_str(), nnz > 0 ? hexvec(s[k].values_data(), (size_t)nnz).c_str() : "-");
        }
        for (int a = 0; a < NS; a++) for (int b = a + 1; b < NS; b++)
            if (s[a].values_data() && s[a].values_data() == s[b].values_data()) printf("ALIAS coo %d %d\n", a, b);
    }
};
struct ObjLU {
    SparseLUSolver<double> s[NS];
    int n[NS] = {0, 0, 0, 0}; // dimension of the matrix a slot was built from (0 = empty)
};

template <class T> static void do_copy_move(T* s, const char* cls, int op, int k, int j)
{
    // op: 0 copy-ctor, 1 copy-assign, 2 move-ctor, 3 move-assign
    static const char* names[] = {"copyctor", "copyassign", "movector", "moveassign"};
    printf("OP %s %s %d %d\n", cls, names[op], k, j);
    if (op == 0 && k != j) { s[k].~T(); new (&s[k]) T(s[j]); }
    if (op == 1) s[k] = s[j];
    if (op == 2 && k != j) { s[k].~T(); new (&s[k]) T(std::move(s[j])); }
    if (op == 3 && k != j) s[k] = std::move(s[j]);
}

static int mode_objects(int histories, int len)
{
    Rng rng(seed_from_env());
    for (int hnum = 0; hnum < histories; hnum++) {
        int cls = rng.range(0, 5);
        static const char* cn[] = {"vec", "diag", "tri", "csr", "coo", "lu"};
        printf("H %d %s\n", hnum, cn[cls]);
        ObjVec ov; ObjDiag od; ObjTri ot; ObjCSR oc; ObjCOO oo; ObjLU ol;
        for (int step = 0; step < len; step++) {
            int k = rng.range(0, NS - 1), j = rng.range(0, NS - 1);
            int what = rng.range(0, 9); // 0-1 new, 2 set, 3-4 solve/use, 5 copyctor, 6 copyassign, 7 movector, 8 moveassign, 9 flags
            if (what >= 5 && what <= 8 && k == j && what != 6) j = (k + 1) % NS;
            int n = rng.range(2, 6);
            // use an empty slot productively: "set/solve" on an empty object becomes "new"
            bool empty = cls == 0 ? ov.s[k].size() == 0 : cls == 1 ? od.s[k].rows() == 0 : cls == 2 ? ot.s[k].rows() == 0
                       : cls == 3 ? oc.s[k].non_zero_size() == 0 : cls == 4 ? oo.s[k].non_zero_size() == 0 : ol.n[k] == 0;
            if (what >= 2 && what <= 4 && empty) what = 0;
            switch (cls) {
            case 0: { // Vector
                if (what <= 1) { printf("OP vec new %d %d\n", k, n); ov.s[k] = Vector<double>(n); for (int i = 0; i < n; i++) ov.s[k][i] = 0.0;
                                 /* Vector(int) leaves entries value-initialised by make_unique */ }
                else if (what <= 4) { if (ov.s[k].size() > 0) { int i = rng.range(0, ov.s[k].size() - 1); double v = pick_value(rng); printf("OP vec set %d %d %s\n", k, i, hex(v).c_str()); ov.s[k][i] = v; } else continue; }
                else if (what <= 8) do_copy_move(ov.s, "vec", what - 5, k, j);
                else continue;
                ov.obs();
                break; }
            case 1: { // DiagonalSolver
                if (what <= 1) { printf("OP diag new %d %d\n", k, n); od.s[k] = DiagonalSolver<double>(n); for (int i = 0; i < n; i++) { double v = rng.uniform(0.5, 3.0); printf("OP diag set %d %d %s\n", k, i, hex(v).c_str()); od.s[k].diagonal(i) = v; } }
                else if (what == 2) { if (od.s[k].rows() > 0) { int i = rng.range(0, od.s[k].rows() - 1); double v = rng.uniform(0.5, 3.0); printf("OP diag set %d %d %s\n", k, i, hex(v).c_str()); od.s[k].diagonal(i) = v; } else continue; }
                else if (what <= 4) { int m = od.s[k].rows(); if (m == 0) continue; std::vector<double> b(m); for (auto& v : b) v = pick_value(rng); std::vector<double> x = b; od.s[k].solveInPlace(x.data()); printf("OP diag solve %d rhs=%s x=%s\n", k, hexvec(b).c_str(), hexvec(x).c_str()); }
                else if (what <= 8) do_copy_move(od.s, "diag", what - 5, k, j);
                else continue;
                od.obs();
                break; }
            case 2: { // SymmetricTridiagonalSolver
                if (what <= 1) {
                    TriSys s = gen_tridiag(rng, 8); s = (s.wc ? s : gen_tridiag(rng, 8));
                    while (!s.wc) s = gen_tridiag(rng, 8);
                    printf("OP tri new %d %d cyc=%d main=%s sub=%s corner=%s\n", k, s.n, (int)s.cyclic, hexvec(s.a).c_str(), hexvec(s.b).c_str(), hex(s.c).c_str());
                    ot.s[k] = SymmetricTridiagonalSolver<double>(s.n); fill(ot.s[k], s); }
                else if (what <= 4) { int m = ot.s[k].rows(); if (m < 2) continue; std::vector<double> b(m); for (auto& v : b) v = pick_value(rng); std::vector<double> x = b, t1(m), t2(m); ot.s[k].solveInPlace(x.data(), t1.data(), t2.data()); printf("OP tri solve %d rhs=%s x=%s\n", k, hexvec(b).c_str(), hexvec(x).c_str()); }
                else if (what <= 8) do_copy_move(ot.s, "tri", what - 5, k, j);
                else continue;
                ot.obs();
                break; }
            case 3: { // SparseMatrixCSR
                if (what <= 1) { SpMat m = gen_sparse(rng, 4); using triplet = SparseMatrixCSR<double>::triplet_type; std::vector<triplet> t; std::string tr, tc; std::vector<double> tv;
                    for (int i = 0; i < m.n; i++) for (auto& e : m.rows[i]) { t.push_back({i, e.first, e.second}); if (!tr.empty()) { tr += ','; tc += ','; } tr += std::to_string(i); tc += std::to_string(e.first); tv.push_back(e.second); }
                    printf("OP csr new %d %d trows=%s tcols=%s tvals=%s\n", k, m.n, tr.c_str(), tc.c_str(), hexvec(tv).c_str()); oc.s[k] = SparseMatrixCSR<double>(m.n, m.n, t); }
                else if (what <= 4) { int nnz = oc.s[k].non_zero_size(); if (nnz == 0) continue; int i = rng.range(0, nnz - 1); double v = pick_value(rng); printf("OP csr set %d %d %s\n", k, i, hex(v).c_str()); oc.s[k].values_data()[i] = v; }
                else if (what <= 8) do_copy_move(oc.s, "csr", what - 5, k, j);
                else continue;
                oc.obs();
                break; }
            case 4: { // SparseMatrixCOO
                if (what <= 1) { int nnz = rng.range(1, std::min(6, n * n)); printf("OP coo new %d %d %d\n", k, n, nnz); oo.s[k] = SparseMatrixCOO<double>(n, n, nnz);
                    for (int i = 0; i < nnz; i++) { int r = rng.range(0, n - 1), c = rng.range(0, n - 1); double v = pick_value(rng); printf("OP coo set %d %d %d %d %s\n", k, i, r, c, hex(v).c_str()); oo.s[k].row_index(i) = r; oo.s[k].col_index(i) = c; oo.s[k].value(i) = v; } }
                else if (what <= 3) { int nnz = oo.s[k].non_zero_size(); if (nnz == 0) continue; int i = rng.range(0, nnz - 1); int r = rng.range(0, oo.s[k].rows() - 1), c = rng.range(0, oo.s[k].columns() - 1); double v = pick_value(rng); printf("OP coo set %d %d %d %d %s\n", k, i, r, c, hex(v).c_str()); oo.s[k].row_index(i) = r; oo.s[k].col_index(i) = c; oo.s[k].value(i) = v; }
                else if (what == 4 || what == 9) { bool b = rng.coin(); printf("OP coo sym %d %d\n", k, (int)b); oo.s[k].is_symmetric(b); }
                else if (what <= 8) do_copy_move(oo.s, "coo", what - 5, k, j);
                else continue;
                oo.obs();
                break; }
            case 5: { // SparseLUSolver: observed through solves only
                if (what <= 1) { SpMat m = gen_sparse(rng, 5); using triplet = SparseMatrixCSR<double>::triplet_type; std::vector<triplet> t; std::string tr, tc; std::vector<double> tv;
                    for (int i = 0; i < m.n; i++) for (auto& e : m.rows[i]) { t.push_back({i, e.first, e.second}); if (!tr.empty()) { tr += ','; tc += ','; } tr += std::to_string(i); tc += std::to_string(e.first); tv.push_back(e.second); }
                    printf("OP lu new %d %d trows=%s tcols=%s tvals=%s\n", k, m.n, tr.c_str(), tc.c_str(), hexvec(tv).c_str());
                    SparseMatrixCSR<double> A(m.n, m.n, t); ol.s[k] = SparseLUSolver<double>(A); ol.n[k] = m.n; }
                else if (what <= 4) { int m = ol.n[k]; if (m == 0) continue; std::vector<double> b(m); for (auto& v : b) v = pick_value(rng); Vector<double> x(b); ol.s[k].solveInPlace(x); printf("OP lu solve %d rhs=%s x=%s\n", k, hexvec(b).c_str(), hexvec(x, m).c_str()); }
                else if (what <= 8) { int op = what - 5; if (op >= 2 && k == j) continue; do_copy_move(ol.s, "lu", op, k, j); if (k != j) { ol.n[k] = ol.n[j]; if (op >= 2) ol.n[j] = 0; } }
                else continue;
                // observable: solve a fixed right-hand side with every non-empty slot
                for (int q = 0; q < NS; q++) { int m = ol.n[q]; if (m == 0) { printf("OBS lu %d n=0\n", q); continue; } std::vector<double> b(m); for (int i = 0; i < m; i++) b[i] = 1.0 + i; Vector<double> x(b); ol.s[q].solveInPlace(x); printf("OBS lu %d n=%d probe=%s\n", q, m, hexvec(x, m).c_str()); }
                break; }
            }
        }
        printf("E\n");
    }
    printf("end\n");
    return 0;
}

int main(int argc, char** argv)
{
    std::string mode = argc > 1 ? argv[1] : "";
    printf("seed %llu\n", (unsigned long long)seed_from_env());
    int a = argc > 2 ? atoi(argv[2]) : 100, b = argc > 3 ? atoi(argv[3]) : 16;
    if (mode == "tridiag") return mode_tridiag(a, b);
    if (mode == "lu") return mode_lu(a, b);
    if (mode == "lu-exit") return mode_lu_exit();
    if (mode == "objects") return mode_objects(a, b);
    fprintf(stderr, "usage: h_linalg tridiag|lu|lu-exit|objects ...\n");
    return 2;
}
