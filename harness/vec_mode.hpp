// Vector kernels of include/LinearAlgebra/vector_operations.h and the copy operations of Vector<T> against their mathematical
// definition (driver `par`, VEC records): random data around the serial / parallel switch and structured data.  Shared by h_par
// (default build) and h_vec (header-only, AddressSanitizer + UBSan: a copy or kernel that runs past the end of an array dies there).
#pragma once
#include "common.hpp"
#include "LinearAlgebra/vector.h"
#include "LinearAlgebra/vector_operations.h"
#include <omp.h>

static void vec_record(const std::vector<double>& a, const std::vector<double>& b, const char* shape)
{
    const int n = (int)a.size();
    Vector<double> A(a), B(b);
    bool first = true;
    for (int t : {1, 2, 3, 4, 7, 8}) {
        omp_set_num_threads(t);
        printf("VECBEGIN n=%d threads=%d shape=%s\n", n, t, shape);
        double dot = dot_product(A, B), l1 = l1_norm(A), l2 = l2_norm_squared(A), inf = infinity_norm(A);
        Vector<double> s = A; add(s, B);
        Vector<double> d = A; subtract(d, B);
        Vector<double> lc = A; linear_combination(lc, 4.0 / 3.0, B, -1.0 / 3.0);
        Vector<double> m = A; multiply(m, 0.75);
        Vector<double> z = A; assign(z, 2.5);
        Vector<double> cp(n); cp = A;
        bool elem_ok = true;
        for (int i = 0; i < n; i++)
            if (s[i] != a[i] + b[i] || d[i] != a[i] - b[i] || lc[i] != 4.0 / 3.0 * a[i] + -1.0 / 3.0 * b[i] || m[i] != a[i] * 0.75 || z[i] != 2.5 || cp[i] != a[i]) elem_ok = false;
        printf("VEC n=%d threads=%d shape=%s dot=%s l1=%s l2sq=%s inf=%s elementwise_ok=%d a=%s b=%s\n", n, t, shape, hex(dot).c_str(), hex(l1).c_str(), hex(l2).c_str(), hex(inf).c_str(), (int)elem_ok,
               first ? hexvec(a).c_str() : "-", first ? hexvec(b).c_str() : "-");
        first = false;
    }
}

static int mode_vec()
{
    Rng rng(seed_from_env());
    // random data around the serial / parallel switch of the kernels (10'000 entries)
    for (int n : {9999, 10000, 10001, 65536}) {
        std::vector<double> a(n), b(n);
        int kind = rng.range(0, 1);
        for (int i = 0; i < n; i++) { a[i] = kind ? rng.uniform(-10, 10) : (double)rng.range(-9, 9); b[i] = kind ? std::ldexp(rng.uniform(-1, 1), rng.range(-6, 6)) : (double)rng.range(-9, 9); }
        vec_record(a, b, "random");
    }
    // structured data: what a reduction with a wrong identity, a dropped first / last element of a thread's chunk or a sign
    // assumption would get wrong — tiny vectors, monotone vectors, one dominating entry (either sign) at index 0, at the end and at
    // the places where the static chunks of 2, 3, 4, 7, 8 threads begin
    for (int n : {1, 2, 5, 100, 10007, 40000}) {
        std::vector<double> b(n);
        for (int i = 0; i < n; i++) b[i] = (double)rng.range(-3, 3);
        { std::vector<double> a(n); for (int i = 0; i < n; i++) a[i] = 2.0 - (double)i / n; vec_record(a, b, "positive-decreasing"); }
        { std::vector<double> a(n); for (int i = 0; i < n; i++) a[i] = -2.0 + (double)i / n; vec_record(a, b, "negative-increasing"); }
        std::vector<int> pos{0, n - 1, n / 2, n / 4, (n + 2) / 3, (n + 6) / 7, (n + 7) / 8, rng.range(0, n - 1)};
        for (size_t q = 0; q < pos.size(); q++) {
            if (n <= 5 && q >= 3) break;
            const int p = std::min(std::max(pos[q], 0), n - 1);
            const double sign = q % 2 == 0 ? 1.0 : -1.0;
            std::vector<double> a(n, 0.5 * (rng.coin() ? 1.0 : -1.0));
            a[p] = sign * 5.0;
            vec_record(a, b, sign > 0 ? "positive-spike" : "negative-spike");
        }
    }
    printf("end\n");
    return 0;
}

