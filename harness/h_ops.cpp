// Operator-level correspondence harness (C03, C04, C05, C06, C07, C08, C09-interpolation, C02-rhs).
//   h_ops residual <cases> <max_nr> <max_nt>
#include "problem.hpp"
#include "Residual/ResidualGive/residualGive.h"
#include "Residual/ResidualTake/residualTake.h"

static int pick_nr(Rng& rng, int max_nr) { static const std::vector<int> s = {5, 7, 9, 11, 13, 17, 21, 25, 33, 65}; int v; do v = rng.pick(s); while (v > max_nr); return v; }
static int pick_nt(Rng& rng, int max_nt) { static const std::vector<int> s = {4, 8, 12, 16, 24, 32, 64, 128}; int v; do v = rng.pick(s); while (v > max_nt); return v; }

static int mode_residual(int cases, int max_nr, int max_nt)
{
    Rng rng(seed_from_env());
    for (int c = 0; c < cases; c++) {
        Problem p = make_problem(rng, pick_nr(rng, max_nr), pick_nt(rng, max_nt));
        // the same problem under the four cache-flag pairs; take needs both caches
        for (int flags = 0; flags < 4; flags++) {
            bool cc = flags & 1, cg = flags & 2;
            std::optional<double> split = rng.coin(0.3) ? std::optional<double>(rng.uniform(p.R0, p.Rmax)) : std::nullopt;
            Chain ch = make_chain(p, 3, cc, cg, split);
            for (size_t l = 0; l < ch.levels.size(); l++) {
                const PolarGrid& g = ch.levels[l]->grid();
                if (flags == 0 || l > 0 || true) emit_level("LV", p, g, p.dirbc);
                int N = g.numberOfNodes();
                std::vector<double> x = random_field(rng, N), f = random_field(rng, N);
                Vector<double> xv = from_rowmajor(g, x), fv = from_rowmajor(g, f);
                for (int threads : {1, 4}) {
                    ResidualGive give(g, ch.levels[l]->levelCache(), *p.geo, *p.coef, p.dirbc, threads);
                    Vector<double> out(N);
                    give.computeResidual(out, fv, xv);
                    printf("RES lvl=%zu strat=give cache=%d%d threads=%d x=%s f=%s out=%s\n", l, (int)cc, (int)cg, threads, hexvec(x).c_str(), hexvec(f).c_str(),
                           hexvec(to_rowmajor(g, out)).c_str());
                    if (cc && cg) {
                        ResidualTake take(g, ch.levels[l]->levelCache(), *p.geo, *p.coef, p.dirbc, threads);
                        Vector<double> out2(N);
                        take.computeResidual(out2, fv, xv);
                        printf("RES lvl=%zu strat=take cache=%d%d threads=%d x=%s f=%s out=%s\n", l, (int)cc, (int)cg, threads, hexvec(x).c_str(), hexvec(f).c_str(),
                               hexvec(to_rowmajor(g, out2)).c_str());
                    }
                }
            }
        }
    }
    printf("end\n");
    return 0;
}

int main(int argc, char** argv)
{
    std::string mode = argc > 1 ? argv[1] : "";
    printf("seed %llu\n", (unsigned long long)seed_from_env());
    int a = argc > 2 ? atoi(argv[2]) : 20, b = argc > 3 ? atoi(argv[3]) : 17, c = argc > 4 ? atoi(argv[4]) : 32;
    if (mode == "residual") return mode_residual(a, b, c);
    fprintf(stderr, "usage: h_ops residual ...\n");
    return 2;
}
