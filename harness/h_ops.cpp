// Operator-level correspondence harness (C03, C04, C05, C06, C07, C08, C09-interpolation, C02-rhs).
//   h_ops residual <cases> <max_nr> <max_nt>
#include "problem.hpp"
#include <map>
#include <memory>
#include "Residual/ResidualGive/residualGive.h"
#include "Residual/ResidualTake/residualTake.h"
#include "DirectSolver/DirectSolverGiveCustomLU/directSolverGiveCustomLU.h"
#include "DirectSolver/DirectSolverTakeCustomLU/directSolverTakeCustomLU.h"

// friend accessor (GMGPOLAR_VERIF hook): the assembled coarse matrices
struct GMGPolarVerif {
    static const SparseMatrixCSR<double>& matrix(const DirectSolverGiveCustomLU& d) { return d.solver_matrix_; }
    static const SparseMatrixCSR<double>& matrix(const DirectSolverTakeCustomLU& d) { return d.solver_matrix_; }
};

static int pick_nr(Rng& rng, int max_nr) { static const std::vector<int> s = {5, 7, 9, 11, 13, 17, 21, 25, 33, 65}; int v; do v = rng.pick(s); while (v > max_nr); return v; }
static int pick_nt(Rng& rng, int max_nt) { static const std::vector<int> s = {4, 6, 8, 10, 12, 16, 20, 24, 32, 64, 128}; int v; do v = rng.pick(s); while (v > max_nt); return v; } // powers of two and not (two wrap code paths)

static std::vector<double> vec_of_v(const Vector<double>& v) { return std::vector<double>(v.begin(), v.end()); }

static int mode_residual(int cases, int max_nr, int max_nt)
{
    Rng rng(seed_from_env());
    for (int c = 0; c < cases; c++) {
        Problem p = make_problem(rng, pick_nr(rng, max_nr), pick_nt(rng, max_nt));
        // the same problem AND the same fields (per level) under the four cache-flag pairs, so that the driver can compare every
        // evaluation of one level with every other one (give vs take, cached vs uncached, sampled coarse caches); take needs both caches
        std::vector<std::vector<double>> xs, fs;
        for (int flags = 0; flags < 4; flags++) {
            bool cc = flags & 1, cg = flags & 2;
            std::optional<double> split = rng.coin(0.3) ? std::optional<double>(rng.uniform(p.R0, p.Rmax)) : std::nullopt;
            Chain ch = make_chain(p, 3, cc, cg, split);
            for (size_t l = 0; l < ch.levels.size(); l++) {
                const PolarGrid& g = ch.levels[l]->grid();
                if (flags == 0 || l > 0 || true) emit_level("LV", p, g, p.dirbc);
                int N = g.numberOfNodes();
                if (xs.size() <= l) { xs.push_back(random_field(rng, N)); fs.push_back(random_field(rng, N)); }
                const std::vector<double>&x = xs[l], &f = fs[l];
                Vector<double> xv = from_rowmajor(g, x), fv = from_rowmajor(g, f);
                for (int threads : {1, 4}) {
                    ResidualGive give(g, ch.levels[l]->levelCache(), *p.geo, *p.coef, p.dirbc, threads);
                    Vector<double> out(N);
                    give.computeResidual(out, fv, xv);
                    printf("RES lvl=%zu strat=give cache=%d%d threads=%d x=%s f=%s out=%s\n", l, (int)cc, (int)cg, threads, hexvec(x).c_str(), hexvec(f).c_str(),
                           hexvec(to_rowmajor(g, out)).c_str());
                    if (cc && cg) {
                        ResidualTake take(g, ch.levels[l]->levelCache(), *p.geo, *p.coef, p.dirbc, threads);
                        Vector<double> out2(N);
                        take.computeResidual(out2, fv, xv);
                        printf("RES lvl=%zu strat=take cache=%d%d threads=%d x=%s f=%s out=%s\n", l, (int)cc, (int)cg, threads, hexvec(x).c_str(), hexvec(f).c_str(),
                               hexvec(to_rowmajor(g, out2)).c_str());
                    }
                }
            }
        }
    }
    printf("end\n");
    return 0;
}

// ---------------------------------------------------------------------------------------------- transfer
static void transfer_big(Rng& rng, int npairs);
// every transfer entry point on harness-built level pairs: both splits, non-uniform spacing, 1 and 4 threads
static int mode_transfer(int cases, int max_nr, int max_nt)
{
    Rng rng(seed_from_env());
    // object history: the Interpolation objects live as long as the process (one per thread count and boundary mode), and every third
    // shape is used for two consecutive pairs with the SAME nr x ntheta but different coordinates — whatever an Interpolation object
    // remembers about an earlier pair must not leak into the next one
    std::map<std::pair<int, bool>, std::unique_ptr<Interpolation>> interp_pool;
    int nr = 0, nt = 0;
    for (int c = 0; c < cases; c++) {
        if (!(c % 3 == 2 && nr > 0)) {
            nr = pick_nr(rng, max_nr); nt = pick_nt(rng, max_nt);
            if (nr < 9) nr = 9;
            if (nt < 8) nt = 8;
            if (nt % 4 != 0) nt += 2; // a level pair needs an even coarse ntheta
        }
        Problem p = make_problem(rng, nr, nt);
        std::optional<double> split = rng.coin(0.4) ? std::optional<double>(rng.uniform(p.R0 * 0.5, p.Rmax * 1.1)) : std::nullopt;
        Chain ch = make_chain(p, 2, true, true, split);
        if (ch.levels.size() < 2) continue;
        const Level& fine = *ch.levels[0];
        const Level& coarse = *ch.levels[1];
        const PolarGrid& gf = fine.grid();
        const PolarGrid& gc = coarse.grid();
        printf("PAIR nrF=%d ntF=%d ncF=%d ncC=%d radiiF=%s anglesF=%s radiiC=%s anglesC=%s\n", gf.nr(), gf.ntheta(), gf.numberSmootherCircles(), gc.numberSmootherCircles(),
               hexvec(gf.radii()).c_str(), hexvec(gf.angles()).c_str(), hexvec(gc.radii()).c_str(), hexvec(gc.angles()).c_str());
        for (int threads : {1, 4}) {
            std::vector<int> tpl = {threads, threads};
            auto& slot = interp_pool[{threads, p.dirbc}];
            if (!slot) slot = std::make_unique<Interpolation>(tpl, p.dirbc);
            Interpolation& I = *slot;
            std::vector<double> xc = random_field(rng, gc.numberOfNodes()), yf = random_field(rng, gf.numberOfNodes());
            Vector<double> xcv = from_rowmajor(gc, xc), yfv = from_rowmajor(gf, yf);
            auto up = [&](const char* name, auto fn) {
                Vector<double> out(gf.numberOfNodes());
                fn(out);
                printf("TR op=%s threads=%d x=%s out=%s\n", name, threads, hexvec(xc).c_str(), hexvec(to_rowmajor(gf, out)).c_str());
            };
            auto down = [&](const char* name, auto fn) {
                Vector<double> out(gc.numberOfNodes());
                fn(out);
                printf("TR op=%s threads=%d x=%s out=%s\n", name, threads, hexvec(yf).c_str(), hexvec(to_rowmajor(gc, out)).c_str());
            };
            if (threads == 1) {
                // linear reproduction probes: x = r and x = theta at the coarse nodes
                std::vector<double> xr(gc.numberOfNodes()), xt(gc.numberOfNodes());
                for (int i = 0; i < gc.nr(); i++) for (int j = 0; j < gc.ntheta(); j++) { xr[(size_t)i * gc.ntheta() + j] = gc.radius(i); xt[(size_t)i * gc.ntheta() + j] = gc.theta(j); }
                Vector<double> o1(gf.numberOfNodes()), o2(gf.numberOfNodes());
                I.applyProlongation(coarse, fine, o1, from_rowmajor(gc, xr));
                I.applyProlongation(coarse, fine, o2, from_rowmajor(gc, xt));
                printf("TR op=prolong kind=linear_r threads=1 x=%s out=%s\n", hexvec(xr).c_str(), hexvec(to_rowmajor(gf, o1)).c_str());
                printf("TR op=prolong kind=linear_t threads=1 x=%s out=%s\n", hexvec(xt).c_str(), hexvec(to_rowmajor(gf, o2)).c_str());
                // C09 probe: a cubic in r sampled at the coarse nodes; the FMG interpolation must return the cubic at every fine node
                // whose radial rule is the four-point (cubic) one
                std::vector<double> xq(gc.numberOfNodes());
                for (int i = 0; i < gc.nr(); i++) for (int j = 0; j < gc.ntheta(); j++) { double r = gc.radius(i); xq[(size_t)i * gc.ntheta() + j] = 1.0 + r * (1.0 + r * (-2.0 + 3.0 * r)); }
                Vector<double> o3(gf.numberOfNodes());
                I.applyFMGInterpolation(coarse, fine, o3, from_rowmajor(gc, xq));
                printf("TR op=fmg kind=cubic_r threads=1 x=%s out=%s\n", hexvec(xq).c_str(), hexvec(to_rowmajor(gf, o3)).c_str());
                // … and a cubic in theta (not periodic: only the fine nodes whose four-point angular stencil does not cross theta = 0 are judged)
                std::vector<double> xqt(gc.numberOfNodes());
                for (int i = 0; i < gc.nr(); i++) for (int j = 0; j < gc.ntheta(); j++) { double t = gc.theta(j); xqt[(size_t)i * gc.ntheta() + j] = 1.0 + t * (1.0 + t * (-2.0 + 3.0 * t)); }
                Vector<double> o4(gf.numberOfNodes());
                I.applyFMGInterpolation(coarse, fine, o4, from_rowmajor(gc, xqt));
                printf("TR op=fmg kind=cubic_t threads=1 x=%s out=%s\n", hexvec(xqt).c_str(), hexvec(to_rowmajor(gf, o4)).c_str());
            }
            up("prolong", [&](Vector<double>& o) { I.applyProlongation(coarse, fine, o, xcv); });
            up("prolong0", [&](Vector<double>& o) { I.applyProlongation0(coarse, fine, o, xcv); });
            up("exprolong", [&](Vector<double>& o) { I.applyExtrapolatedProlongation(coarse, fine, o, xcv); });
            up("exprolong0", [&](Vector<double>& o) { I.applyExtrapolatedProlongation0(coarse, fine, o, xcv); });
            up("fmg", [&](Vector<double>& o) { I.applyFMGInterpolation(coarse, fine, o, xcv); });
            down("restrict", [&](Vector<double>& o) { I.applyRestriction(fine, coarse, o, yfv); });
            down("restrict0", [&](Vector<double>& o) { I.applyRestriction0(fine, coarse, o, yfv); });
            down("exrestrict", [&](Vector<double>& o) { I.applyExtrapolatedRestriction(fine, coarse, o, yfv); });
            down("exrestrict0", [&](Vector<double>& o) { I.applyExtrapolatedRestriction0(fine, coarse, o, yfv); });
            down("inject", [&](Vector<double>& o) { I.applyInjection(fine, coarse, o, yfv); });
        }
    }
    transfer_big(rng, cases >= 100 ? 12 : 3);
    printf("end\n");
    return 0;
}

// transfers above the 10 000-node threshold at which the optimised loops really fork (`#pragma omp parallel if (n > 10'000)`), on
// non-uniform radii AND angles, for several thread counts incl. counts that do not divide the loop lengths: every optimised entry point
// against its reference implementation on the same input, and against its own 1-thread result
static void transfer_big(Rng& rng, int npairs)
{
    const int shapes[][2] = {{65, 160}, {97, 128}, {49, 216}, {81, 136}};
    for (int c = 0; c < npairs; c++) {
        int nr = shapes[c % 4][0], nt = shapes[c % 4][1];
        Problem p = make_problem(rng, nr, nt);
        make_grid_arrays(rng, nr, nt, p.R0, p.Rmax, p.radii, p.angles, true);
        // force non-uniform angles (antipodally symmetric): jitter every inner angle of the first half
        { int half = nt / 2; for (int j = 1; j < half; j++) { p.angles[j] = ((double)j + 0.6 * (rng.unit() - 0.5)) / half * M_PI; p.angles[j + half] = p.angles[j] + M_PI; } }
        // alternately the automatic split and an explicit one well inside the domain: both sections are non-empty on both levels in every pair
        std::optional<double> split = c % 2 == 1 ? std::optional<double>(rng.uniform(p.R0 + 0.2 * (p.Rmax - p.R0), p.R0 + 0.7 * (p.Rmax - p.R0))) : std::nullopt;
        Chain ch = make_chain(p, 2, true, true, split);
        if (ch.levels.size() < 2) continue;
        const Level& fine = *ch.levels[0];
        const Level& coarse = *ch.levels[1];
        const PolarGrid& gf = fine.grid();
        const PolarGrid& gc = coarse.grid();
        std::vector<double> xc = random_field(rng, gc.numberOfNodes()), yf = random_field(rng, gf.numberOfNodes());
        Vector<double> xcv = from_rowmajor(gc, xc), yfv = from_rowmajor(gf, yf);
        std::map<std::string, std::vector<double>> one_thread;
        for (int threads : {1, 2, 3, 4, 7}) {
            std::vector<int> tpl = {threads, threads};
            Interpolation I(tpl, p.dirbc);
            auto run = [&](const char* name, bool up, auto fn, auto fn_ref) {
                const PolarGrid& go = up ? gf : gc;
                Vector<double> out(go.numberOfNodes()), ref(go.numberOfNodes());
                fn(out);
                fn_ref(ref);
                double dref = 0, d1 = 0, scale = 0;
                std::vector<double> o = vec_of_v(out);
                for (int i = 0; i < out.size(); i++) { dref = std::max(dref, std::abs(out[i] - ref[i])); scale = std::max(scale, std::abs(ref[i])); }
                if (threads == 1) one_thread[name] = o;
                else for (size_t i = 0; i < o.size(); i++) d1 = std::max(d1, std::abs(o[i] - one_thread[name][i]));
                printf("TRBIG op=%s threads=%d nrF=%d ntF=%d ncF=%d maxdiff_vs_reference=%s maxdiff_vs_1thread=%s scale=%s\n", name, threads, gf.nr(), gf.ntheta(), gf.numberSmootherCircles(), hex(dref).c_str(),
                       hex(d1).c_str(), hex(scale).c_str());
            };
            run("prolong", true, [&](Vector<double>& o) { I.applyProlongation(coarse, fine, o, xcv); }, [&](Vector<double>& o) { I.applyProlongation0(coarse, fine, o, xcv); });
            run("exprolong", true, [&](Vector<double>& o) { I.applyExtrapolatedProlongation(coarse, fine, o, xcv); }, [&](Vector<double>& o) { I.applyExtrapolatedProlongation0(coarse, fine, o, xcv); });
            run("restrict", false, [&](Vector<double>& o) { I.applyRestriction(fine, coarse, o, yfv); }, [&](Vector<double>& o) { I.applyRestriction0(fine, coarse, o, yfv); });
            run("exrestrict", false, [&](Vector<double>& o) { I.applyExtrapolatedRestriction(fine, coarse, o, yfv); }, [&](Vector<double>& o) { I.applyExtrapolatedRestriction0(fine, coarse, o, yfv); });
            run("fmg", true, [&](Vector<double>& o) { I.applyFMGInterpolation(coarse, fine, o, xcv); }, [&](Vector<double>& o) { std::vector<int> t1 = {1, 1}; Interpolation I1(t1, p.dirbc); I1.applyFMGInterpolation(coarse, fine, o, xcv); });
            run("inject", false, [&](Vector<double>& o) { I.applyInjection(fine, coarse, o, yfv); }, [&](Vector<double>& o) { std::vector<int> t1 = {1, 1}; Interpolation I1(t1, p.dirbc); I1.applyInjection(fine, coarse, o, yfv); });
        }
    }
}

// ---------------------------------------------------------------------------------------------- smoothers
// one sweep of SmootherGive/Take (extrapolated = false) or ExtrapolatedSmootherGive/Take on a harness-built level
static int mode_smooth(int cases, int max_nr, int max_nt, bool extrapolated)
{
    Rng rng(seed_from_env());
    for (int c = 0; c < cases; c++) {
        int nr = pick_nr(rng, max_nr), nt = pick_nt(rng, max_nt);
        if (nt % 4 != 0) nt = 8;
        if (extrapolated && nr < 7) nr = 7;
        Problem p = make_problem(rng, nr, nt);
        // explicit splits give both parities of the number of circles; keep >= 2 (3) circles and >= 3 radial nodes
        std::optional<double> split = std::nullopt;
        if (rng.coin(0.6)) { int lo = extrapolated ? 3 : 2; int nc = rng.range(lo, nr - 3); if (nc >= lo) split = 0.5 * (p.radii[nc - 1] + p.radii[nc]); }
        Chain ch = make_chain(p, 1, true, true, split);
        Level& L = *ch.levels[0];
        const PolarGrid& g = L.grid();
        if (g.numberSmootherCircles() < (extrapolated ? 3 : 2) || g.lengthSmootherRadial() < 3) continue;
        emit_level("LV", p, g, p.dirbc);
        int N = g.numberOfNodes();
        std::vector<double> x = random_field(rng, N), f = random_field(rng, N);
        for (int strat = 0; strat < 2; strat++)
            for (int threads : {1, 4}) {
                auto method = strat == 0 ? StencilDistributionMethod::CPU_GIVE : StencilDistributionMethod::CPU_TAKE;
                Vector<double> xv = from_rowmajor(g, x), fv = from_rowmajor(g, f), tmp(N);
                for (int i = 0; i < N; i++) tmp[i] = rng.uniform(-1e3, 1e3); // scratch holds garbage
                if (!extrapolated) { L.initializeSmoothing(*p.geo, *p.coef, p.dirbc, threads, method); L.smoothing(xv, fv, tmp); }
                else { L.initializeExtrapolatedSmoothing(*p.geo, *p.coef, p.dirbc, threads, method); L.extrapolatedSmoothing(xv, fv, tmp); }
                printf("SM ex=%d strat=%s threads=%d x=%s f=%s out=%s\n", (int)extrapolated, strat == 0 ? "give" : "take", threads, hexvec(x).c_str(), hexvec(f).c_str(),
                       hexvec(to_rowmajor(g, xv)).c_str());
            }
        // the give strategy without one or both level caches (it then evaluates the profile / the geometry itself): three of four cases
        const bool cc = c & 1, cg = (c >> 1) & 1;
        if (!(cc && cg)) {
            Chain ch2 = make_chain(p, 1, cc, cg, split);
            Level& L2 = *ch2.levels[0];
            for (int threads : {1, 4}) {
                Vector<double> xv = from_rowmajor(g, x), fv = from_rowmajor(g, f), tmp(N);
                for (int i = 0; i < N; i++) tmp[i] = rng.uniform(-1e3, 1e3);
                if (!extrapolated) { L2.initializeSmoothing(*p.geo, *p.coef, p.dirbc, threads, StencilDistributionMethod::CPU_GIVE); L2.smoothing(xv, fv, tmp); }
                else { L2.initializeExtrapolatedSmoothing(*p.geo, *p.coef, p.dirbc, threads, StencilDistributionMethod::CPU_GIVE); L2.extrapolatedSmoothing(xv, fv, tmp); }
                printf("SM ex=%d strat=give threads=%d caches=%d%d x=%s f=%s out=%s\n", (int)extrapolated, threads, (int)cc, (int)cg, hexvec(x).c_str(), hexvec(f).c_str(), hexvec(to_rowmajor(g, xv)).c_str());
            }
        }
    }
    printf("end\n");
    return 0;
}

// ---------------------------------------------------------------------------------------------- matrix / direct
static std::string csr_dump(const PolarGrid& g, const SparseMatrixCSR<double>& A)
{
    // entries as (row node i,j ; col node i,j ; value) in row-major node coordinates
    std::string s;
    char buf[96];
    for (int r = 0; r < A.rows(); r++) {
        int ri, rj; g.multiIndex(r, ri, rj);
        for (int k = 0; k < A.row_nz_size(r); k++) {
            int cidx = A.row_nz_index(r, k), ci, cj;
            g.multiIndex(cidx, ci, cj);
            snprintf(buf, sizeof buf, "%d:%d:%s", ri * g.ntheta() + rj, ci * g.ntheta() + cj, hex(A.row_nz_entry(r, k)).c_str());
            if (!s.empty()) s += ',';
            s += buf;
        }
    }
    return s;
}
static int mode_direct(int cases, int max_nr, int max_nt)
{
    Rng rng(seed_from_env());
    for (int c = 0; c < cases; c++) {
        int nr = pick_nr(rng, max_nr), nt = pick_nt(rng, max_nt);
        Problem p = make_problem(rng, nr, nt);
        std::optional<double> split = rng.coin(0.3) ? std::optional<double>(rng.uniform(p.R0, p.Rmax)) : std::nullopt;
      // object history: every third problem is solved a second time on the SAME radii, angles and boundary mode with a different
      // circle / radial split (other node numbering, other positions of the boundary rows) — whatever a solver remembers from an
      // earlier solver of the same size in this process must not leak into the next one
      for (int pass = 0; pass < (c % 3 == 2 ? 2 : 1); pass++) {
        if (pass == 1) {
            Chain first = make_chain(p, 1, true, true, split);
            const PolarGrid& g0 = first.levels[0]->grid();
            const int nc0 = g0.numberSmootherCircles();
            // a splitting radius between two radii such that the number of circles changes (and stays admissible)
            int want = nc0 >= g0.nr() / 2 ? std::max(2, nc0 - 2) : std::min(g0.nr() - 3, nc0 + 2);
            if (want == nc0 || want < 1 || want >= g0.nr()) break;
            split = 0.5 * (g0.radius(want - 1) + g0.radius(want));
        }
        Chain ch = make_chain(p, 1, true, true, split);
        const PolarGrid& g = ch.levels[0]->grid();
        emit_level("LV", p, g, p.dirbc);
        int N = g.numberOfNodes();
        for (int strat = 0; strat < 2; strat++)
            for (int threads : {1, 4}) {
                std::vector<double> b(N);
                int kind = rng.range(0, 3);
                for (auto& v : b) v = kind == 0 ? rng.uniform(-1, 1) : std::ldexp(rng.uniform(-1, 1), rng.range(-40, 40)); // huge dynamic range
                // a right-hand side that is tiny (its squared norm underflows to zero) or huge as a whole: the solve is linear, the scale must not matter
                if (kind == 3) { const double sc = rng.pick(std::vector<double>{1e-170, 1e-200, 1e-250, 1e120}); for (auto& v : b) v = rng.uniform(-1, 1) * sc; }
                Vector<double> bv = from_rowmajor(g, b);
                std::string mat;
                // give: the scatter assembly is dumped for the sequential branch (threads == 1) AND for the 3-coloured parallel branch (threads == 4)
                if (strat == 0) { DirectSolverGiveCustomLU d(g, ch.levels[0]->levelCache(), *p.geo, *p.coef, p.dirbc, threads); d.solveInPlace(bv); if (N <= 200) mat = csr_dump(g, GMGPolarVerif::matrix(d)); }
                else { DirectSolverTakeCustomLU d(g, ch.levels[0]->levelCache(), *p.geo, *p.coef, p.dirbc, threads); d.solveInPlace(bv); if (threads == 1 && N <= 200) mat = csr_dump(g, GMGPolarVerif::matrix(d)); }
                printf("DS strat=%s threads=%d b=%s x=%s mat=%s\n", strat == 0 ? "give" : "take", threads, hexvec(b).c_str(), hexvec(to_rowmajor(g, bv)).c_str(), mat.empty() ? "-" : mat.c_str());
            }
      }
    }
    printf("end\n");
    return 0;
}
// the operator as a matrix, read off the residual with one-hot vectors (f = 0): column k of A is -(residual of e_k)
static int mode_matrix(int cases, int max_nr, int max_nt)
{
    Rng rng(seed_from_env());
    for (int c = 0; c < cases; c++) {
        int nr = pick_nr(rng, max_nr), nt = pick_nt(rng, max_nt);
        Problem p = make_problem(rng, nr, nt);
        Chain ch = make_chain(p, 1, true, true);
        const PolarGrid& g = ch.levels[0]->grid();
        emit_level("LV", p, g, p.dirbc);
        int N = g.numberOfNodes();
        for (int strat = 0; strat < 2; strat++) {
            std::string cols;
            Vector<double> zero(N), e(N), out(N);
            for (int i = 0; i < N; i++) zero[i] = 0.0;
            for (int k = 0; k < N; k++) {
                int ki = k / g.ntheta(), kj = k % g.ntheta();
                for (int i = 0; i < N; i++) e[i] = 0.0;
                e[g.index(ki, kj)] = 1.0;
                if (strat == 0) { ResidualGive R(g, ch.levels[0]->levelCache(), *p.geo, *p.coef, p.dirbc, 1); R.computeResidual(out, zero, e); }
                else { ResidualTake R(g, ch.levels[0]->levelCache(), *p.geo, *p.coef, p.dirbc, 1); R.computeResidual(out, zero, e); }
                std::vector<double> col = to_rowmajor(g, out);
                for (auto& v : col) v = -v;
                if (k) cols += ';';
                cols += hexvec(col);
            }
            printf("MAT strat=%s cols=%s\n", strat == 0 ? "give" : "take", cols.c_str());
        }
    }
    printf("end\n");
    return 0;
}

// ---------------------------------------------------------------------------------------------- level caches
// every array of the LevelCache of every level of a chain (fresh constructor on level 0, sampling constructor below), for all
// four cache-flag pairs; arrays in the library's node numbering
static int mode_cache(int cases, int max_nr, int max_nt)
{
    Rng rng(seed_from_env());
    for (int c = 0; c < cases; c++) {
        int nr = pick_nr(rng, max_nr), nt = pick_nt(rng, max_nt);
        if (nt % 4 != 0) nt = 8;
        if (nr < 9 && rng.coin(0.7)) nr = 9;
        Problem p = make_problem(rng, nr, nt);
        std::optional<double> split = rng.coin(0.4) ? std::optional<double>(rng.uniform(p.R0, p.Rmax)) : std::nullopt;
        for (int flags = 0; flags < 4; flags++) {
            bool cc = flags & 1, cg = flags & 2;
            Chain ch = make_chain(p, 3, cc, cg, split);
            if (flags == 0) emit_level("LV", p, ch.levels[0]->grid(), p.dirbc);
            for (size_t d = 0; d < ch.levels.size(); d++) {
                const PolarGrid& g = ch.levels[d]->grid();
                const LevelCache& lc = ch.levels[d]->levelCache();
                auto dump = [](const auto& v) { std::vector<double> w(v.begin(), v.end()); return w.empty() ? std::string("-") : hexvec(w); };
                printf("CA lvl=%zu cc=%d cg=%d nr=%d nt=%d nc=%d radii=%s angles=%s sin=%s cos=%s alpha=%s beta=%s arr=%s att=%s art=%s det=%s\n", d, (int)cc, (int)cg, g.nr(), g.ntheta(),
                       g.numberSmootherCircles(), hexvec(g.radii()).c_str(), hexvec(g.angles()).c_str(), dump(lc.sin_theta()).c_str(), dump(lc.cos_theta()).c_str(),
                       dump(lc.coeff_alpha()).c_str(), dump(lc.coeff_beta()).c_str(), dump(lc.arr()).c_str(), dump(lc.att()).c_str(), dump(lc.art()).c_str(), dump(lc.detDF()).c_str());
            }
        }
    }
    printf("end\n");
    return 0;
}

int main(int argc, char** argv)
{
    std::string mode = argc > 1 ? argv[1] : "";
    printf("seed %llu\n", (unsigned long long)seed_from_env());
    int a = argc > 2 ? atoi(argv[2]) : 20, b = argc > 3 ? atoi(argv[3]) : 17, c = argc > 4 ? atoi(argv[4]) : 32;
    if (mode == "residual") return mode_residual(a, b, c);
    if (mode == "transfer") return mode_transfer(a, b, c);
    if (mode == "smooth") return mode_smooth(a, b, c, false);
    if (mode == "exsmooth") return mode_smooth(a, b, c, true);
    if (mode == "direct") return mode_direct(a, b, c);
    if (mode == "matrix") return mode_matrix(a, b, c);
    if (mode == "cache") return mode_cache(a, b, c);
    fprintf(stderr, "usage: h_ops residual ...\n");
    return 2;
}
