// Operator-level correspondence harness (C03, C04, C05, C06, C07, C08, C09-interpolation, C02-rhs).
//   h_ops residual <cases> <max_nr> <max_nt>
#include "problem.hpp"
#include "Residual/ResidualGive/residualGive.h"
#include "Residual/ResidualTake/residualTake.h"

static int pick_nr(Rng& rng, int max_nr) { static const std::vector<int> s = {5, 7, 9, 11, 13, 17, 21, 25, 33, 65}; int v; do v = rng.pick(s); while (v > max_nr); return v; }
static int pick_nt(Rng& rng, int max_nt) { static const std::vector<int> s = {4, 8, 12, 16, 24, 32, 64, 128}; int v; do v = rng.pick(s); while (v > max_nt); return v; }

static int mode_residual(int cases, int max_nr, int max_nt)
{
    Rng rng(seed_from_env());
    for (int c = 0; c < cases; c++) {
        Problem p = make_problem(rng, pick_nr(rng, max_nr), pick_nt(rng, max_nt));
        // the same problem under the four cache-flag pairs; take needs both caches
        for (int flags = 0; flags < 4; flags++) {
            bool cc = flags & 1, cg = flags & 2;
            std::optional<double> split = rng.coin(0.3) ? std::optional<double>(rng.uniform(p.R0, p.Rmax)) : std::nullopt;
            Chain ch = make_chain(p, 3, cc, cg, split);
            for (size_t l = 0; l < ch.levels.size(); l++) {
                const PolarGrid& g = ch.levels[l]->grid();
                if (flags == 0 || l > 0 || true) emit_level("LV", p, g, p.dirbc);
                int N = g.numberOfNodes();
                std::vector<double> x = random_field(rng, N), f = random_field(rng, N);
                Vector<double> xv = from_rowmajor(g, x), fv = from_rowmajor(g, f);
                for (int threads : {1, 4}) {
                    ResidualGive give(g, ch.levels[l]->levelCache(), *p.geo, *p.coef, p.dirbc, threads);
                    Vector<double> out(N);
                    give.computeResidual(out, fv, xv);
                    printf("RES lvl=%zu strat=give cache=%d%d threads=%d x=%s f=%s out=%s\n", l, (int)cc, (int)cg, threads, hexvec(x).c_str(), hexvec(f).c_str(),
                           hexvec(to_rowmajor(g, out)).c_str());
                    if (cc && cg) {
                        ResidualTake take(g, ch.levels[l]->levelCache(), *p.geo, *p.coef, p.dirbc, threads);
                        Vector<double> out2(N);
                        take.computeResidual(out2, fv, xv);
                        printf("RES lvl=%zu strat=take cache=%d%d threads=%d x=%s f=%s out=%s\n", l, (int)cc, (int)cg, threads, hexvec(x).c_str(), hexvec(f).c_str(),
                               hexvec(to_rowmajor(g, out2)).c_str());
                    }
                }
            }
        }
    }
    printf("end\n");
    return 0;
}

// ---------------------------------------------------------------------------------------------- transfer
// every transfer entry point on harness-built level pairs: both splits, non-uniform spacing, 1 and 4 threads
static int mode_transfer(int cases, int max_nr, int max_nt)
{
    Rng rng(seed_from_env());
    for (int c = 0; c < cases; c++) {
        int nr = pick_nr(rng, max_nr), nt = pick_nt(rng, max_nt);
        if (nr < 9) nr = 9;
        if (nt < 8) nt = 8;
        Problem p = make_problem(rng, nr, nt);
        std::optional<double> split = rng.coin(0.4) ? std::optional<double>(rng.uniform(p.R0 * 0.5, p.Rmax * 1.1)) : std::nullopt;
        Chain ch = make_chain(p, 2, true, true, split);
        if (ch.levels.size() < 2) continue;
        const Level& fine = *ch.levels[0];
        const Level& coarse = *ch.levels[1];
        const PolarGrid& gf = fine.grid();
        const PolarGrid& gc = coarse.grid();
        printf("PAIR nrF=%d ntF=%d ncF=%d ncC=%d radiiF=%s anglesF=%s radiiC=%s anglesC=%s\n", gf.nr(), gf.ntheta(), gf.numberSmootherCircles(), gc.numberSmootherCircles(),
               hexvec(gf.radii()).c_str(), hexvec(gf.angles()).c_str(), hexvec(gc.radii()).c_str(), hexvec(gc.angles()).c_str());
        for (int threads : {1, 4}) {
            std::vector<int> tpl = {threads, threads};
            Interpolation I(tpl, p.dirbc);
            std::vector<double> xc = random_field(rng, gc.numberOfNodes()), yf = random_field(rng, gf.numberOfNodes());
            Vector<double> xcv = from_rowmajor(gc, xc), yfv = from_rowmajor(gf, yf);
            auto up = [&](const char* name, auto fn) {
                Vector<double> out(gf.numberOfNodes());
                fn(out);
                printf("TR op=%s threads=%d x=%s out=%s\n", name, threads, hexvec(xc).c_str(), hexvec(to_rowmajor(gf, out)).c_str());
            };
            auto down = [&](const char* name, auto fn) {
                Vector<double> out(gc.numberOfNodes());
                fn(out);
                printf("TR op=%s threads=%d x=%s out=%s\n", name, threads, hexvec(yf).c_str(), hexvec(to_rowmajor(gc, out)).c_str());
            };
            if (threads == 1) {
                // linear reproduction probes: x = r and x = theta at the coarse nodes
                std::vector<double> xr(gc.numberOfNodes()), xt(gc.numberOfNodes());
                for (int i = 0; i < gc.nr(); i++) for (int j = 0; j < gc.ntheta(); j++) { xr[(size_t)i * gc.ntheta() + j] = gc.radius(i); xt[(size_t)i * gc.ntheta() + j] = gc.theta(j); }
                Vector<double> o1(gf.numberOfNodes()), o2(gf.numberOfNodes());
                I.applyProlongation(coarse, fine, o1, from_rowmajor(gc, xr));
                I.applyProlongation(coarse, fine, o2, from_rowmajor(gc, xt));
                printf("TR op=prolong kind=linear_r threads=1 x=%s out=%s\n", hexvec(xr).c_str(), hexvec(to_rowmajor(gf, o1)).c_str());
                printf("TR op=prolong kind=linear_t threads=1 x=%s out=%s\n", hexvec(xt).c_str(), hexvec(to_rowmajor(gf, o2)).c_str());
            }
            up("prolong", [&](Vector<double>& o) { I.applyProlongation(coarse, fine, o, xcv); });
            up("prolong0", [&](Vector<double>& o) { I.applyProlongation0(coarse, fine, o, xcv); });
            up("exprolong", [&](Vector<double>& o) { I.applyExtrapolatedProlongation(coarse, fine, o, xcv); });
            up("exprolong0", [&](Vector<double>& o) { I.applyExtrapolatedProlongation0(coarse, fine, o, xcv); });
            up("fmg", [&](Vector<double>& o) { I.applyFMGInterpolation(coarse, fine, o, xcv); });
            down("restrict", [&](Vector<double>& o) { I.applyRestriction(fine, coarse, o, yfv); });
            down("restrict0", [&](Vector<double>& o) { I.applyRestriction0(fine, coarse, o, yfv); });
            down("exrestrict", [&](Vector<double>& o) { I.applyExtrapolatedRestriction(fine, coarse, o, yfv); });
            down("exrestrict0", [&](Vector<double>& o) { I.applyExtrapolatedRestriction0(fine, coarse, o, yfv); });
            down("inject", [&](Vector<double>& o) { I.applyInjection(fine, coarse, o, yfv); });
        }
    }
    printf("end\n");
    return 0;
}

int main(int argc, char** argv)
{
    std::string mode = argc > 1 ? argv[1] : "";
    printf("seed %llu\n", (unsigned long long)seed_from_env());
    int a = argc > 2 ? atoi(argv[2]) : 20, b = argc > 3 ? atoi(argv[3]) : 17, c = argc > 4 ? atoi(argv[4]) : 32;
    if (mode == "residual") return mode_residual(a, b, c);
    if (mode == "transfer") return mode_transfer(a, b, c);
    fprintf(stderr, "usage: h_ops residual ...\n");
    return 2;
}
