// C17 correspondence harness: real PolarGrid objects; every index / neighbour / split / coarsening query is
// printed as integers (doubles as hex bits) for the Lean driver (`gmgdriver grid`) to recompute with the model.
//
//   G nr nt nc pow2 split=<auto|hex> radii=<hex,..> angles=<hex,..>     a grid (all following lines refer to it)
//   X i ju v          index(i, ju) with an unwrapped angular index
//   F i j v w         fastIndex(i,j), index(MultiIndex(i,j))
//   M n i j ri rj     multiIndex(n, i, j) and multiIndex(n)
//   A i j a0 a1 a2 a3 d0 d1 d2 d3    adjacentNeighborsOf, diagonalNeighborsOf
//   D i j h- h+ k- k+                adjacentNeighborDistances (hex)
//   C cnr cnt cnc radii= angles=     coarseningGrid
//   E                                end of grid
#include "common.hpp"
#include "PolarGrid/polargrid.h"
#include <optional>

static void dump_grid(const PolarGrid& g, const std::optional<double>& split, Rng& rng, bool full, int depth);

static void emit_header(const PolarGrid& g, const std::optional<double>& split, const char* tag)
{
    // is_ntheta_PowerOfTwo_ is private: observe it through multiIndex/wrap behaviour instead; report the
    // public facts only.
    printf("%s %d %d %d split=%s radii=%s angles=%s\n", tag, g.nr(), g.ntheta(), g.numberSmootherCircles(),
           split.has_value() ? hex(*split).c_str() : "auto", hexvec(g.radii()).c_str(), hexvec(g.angles()).c_str());
}

static void dump_grid(const PolarGrid& g, const std::optional<double>& split, Rng& rng, bool full, int depth)
{
    emit_header(g, split, "G");
    const int nr = g.nr(), nt = g.ntheta();
    printf("N %d %d %d %d\n", g.numberOfNodes(), g.numberCircularSmootherNodes(), g.numberRadialSmootherNodes(),
           g.lengthSmootherRadial());
    for (int i = 0; i < nr; i++) {
        for (int j = 0; j < nt; j++) {
            printf("F %d %d %d %d\n", i, j, g.fastIndex(i, j), g.index(MultiIndex(i, j)));
            std::array<std::pair<int, int>, space_dimension> a, d;
            g.adjacentNeighborsOf(MultiIndex(i, j), a);
            g.diagonalNeighborsOf(MultiIndex(i, j), d);
            printf("A %d %d %d %d %d %d %d %d %d %d\n", i, j, a[0].first, a[0].second, a[1].first, a[1].second,
                   d[0].first, d[0].second, d[1].first, d[1].second);
            std::array<std::pair<double, double>, space_dimension> nd;
            g.adjacentNeighborDistances(MultiIndex(i, j), nd);
            printf("D %d %d %s %s %s %s\n", i, j, hex(nd[0].first).c_str(), hex(nd[0].second).c_str(),
                   hex(nd[1].first).c_str(), hex(nd[1].second).c_str());
        }
        // unwrapped angular indices over several periods, plus a few far ones
        int lo = full ? -3 * nt : -nt - 1, hi = full ? 3 * nt : nt + 1;
        for (int ju = lo; ju <= hi; ju++)
            printf("X %d %d %d\n", i, ju, g.index(i, ju));
        for (int k = 0; k < 4; k++) {
            int ju = rng.range(-1000000, 1000000);
            printf("X %d %d %d\n", i, ju, g.index(i, ju));
        }
    }
    for (int n = 0; n < g.numberOfNodes(); n++) {
        int i, j;
        g.multiIndex(n, i, j);
        MultiIndex m = g.multiIndex(n);
        printf("M %d %d %d %d %d\n", n, i, j, m[0], m[1]);
    }
    if (depth > 0 && nr % 2 == 1 && nt % 2 == 0 && nr >= 3 && nt >= 4) {
        // coarsening needs antipodal partners on the coarse grid too: nt/2 even
        bool coarse_ok = (nt / 2) % 2 == 0;
        if (coarse_ok) {
            try {
                PolarGrid c = coarseningGrid(g);
                emit_header(c, std::nullopt, "C");
                printf("E\n");
                dump_grid(c, std::nullopt, rng, false, depth - 1);
                return;
            }
            catch (const std::exception& e) {
                printf("C-throw %s\n", e.what());
            }
        }
    }
    printf("E\n");
}

int main(int argc, char** argv)
{
    uint64_t seed = seed_from_env();
    int ngrids    = argc > 1 ? atoi(argv[1]) : 100;
    int max_nr    = argc > 2 ? atoi(argv[2]) : 20;
    int max_nt    = argc > 3 ? atoi(argv[3]) : 28;
    Rng rng(seed);
    printf("seed %llu\n", (unsigned long long)seed);
    for (int c = 0; c < ngrids; c++) {
        // --- shape ---
        int nr = rng.coin(0.6) ? 2 * rng.range(1, (max_nr - 1) / 2) + 1 : rng.range(2, max_nr);
        int nt;
        {
            int kind = rng.range(0, 3);
            if (kind == 0) { // power of two
                int e = 1;
                while ((2 << e) <= max_nt && rng.coin(0.6)) e++;
                nt = 1 << e;
            }
            else if (kind == 1) { // multiple of 4 (coarsenable), often not a power of two
                nt = 4 * rng.range(1, std::max(1, max_nt / 4));
            }
            else { // any even number
                nt = 2 * rng.range(1, std::max(1, max_nt / 2));
            }
        }
        // --- radii ---
        std::vector<double> radii(nr);
        double R0 = rng.pick(std::vector<double>{1e-8, 1e-5, 1e-2, 0.3}), Rmax = 1.3;
        int rk = rng.range(0, 2);
        for (int i = 0; i < nr; i++) {
            double t = (double)i / (nr - 1);
            radii[i] = rk == 0 ? R0 + t * (Rmax - R0) : R0 * std::pow(Rmax / R0, t);
        }
        if (rk == 2)
            for (int i = 1; i + 1 < nr; i++)
                radii[i] += 0.3 * (rng.unit() - 0.5) * std::min(radii[i + 1] - radii[i], radii[i] - radii[i - 1]);
        if (rng.coin(0.3))
            for (int i = 1; i + 1 < nr; i += 2)
                radii[i] = 0.5 * (radii[i - 1] + radii[i + 1]);
        // --- angles: a partition of [0, pi) repeated on [pi, 2pi) so that every angle has its antipode ---
        std::vector<double> angles(nt + 1);
        bool uniform = rng.coin(0.5);
        int half     = nt / 2;
        for (int j = 0; j < half; j++) {
            double t = (double)j / half;
            if (!uniform && j > 0) t += 0.4 * (rng.unit() - 0.5) / half;
            angles[j]        = t * M_PI;
            angles[j + half] = angles[j] + M_PI;
        }
        angles[0]  = 0.0;
        angles[nt] = 2 * M_PI;
        // --- split ---
        std::optional<double> split;
        int sk = rng.range(0, 5);
        if (sk == 0) split = std::nullopt;
        else if (sk == 1) split = R0 * 0.5; // below R0: radial only
        else if (sk == 2) split = Rmax + 1.0; // above Rmax: circles only
        else if (sk == 3) split = radii[rng.range(0, nr - 1)]; // exactly a node
        else split = rng.uniform(R0, Rmax);
        try {
            PolarGrid g(radii, angles, split);
            if (c % 5 == 2) {
                // object histories: the grid that is queried is a COPY whose source object is afterwards overwritten by a different grid,
                // or an element of a vector that has re-allocated, or a move target — its queries must still agree with ITS OWN arrays
                std::vector<double> r2 = {0.2, 0.5, 0.6, 1.1, 1.9}, a2 = {0.0, 1.0, M_PI, M_PI + 1.0, 2 * M_PI};
                PolarGrid other(r2, a2, std::nullopt);
                int hk = rng.range(0, 3);
                if (hk == 0) { PolarGrid snap = g; g = other; dump_grid(snap, split, rng, false, 3); }
                else if (hk == 1) { PolarGrid snap(other); snap = g; g = other; dump_grid(snap, split, rng, false, 3); }
                else if (hk == 2) { std::vector<PolarGrid> keep; keep.push_back(g); g = other; for (int q = 0; q < 5; q++) keep.push_back(other); dump_grid(keep[0], split, rng, false, 3); }
                else { PolarGrid tmp = g; PolarGrid snap = std::move(tmp); tmp = other; g = other; dump_grid(snap, split, rng, false, 3); }
            }
            else dump_grid(g, split, rng, c % 4 == 0, 3);
            if (c % 6 == 1) {
                // the PARAMETRIC constructor (uniform / anisotropic generation, then divideBy2 refinements): the index queries of a grid that
                // was refined after its angular division was first set up
                const int nr_exp = rng.range(2, 3), nt_exp = rng.pick(std::vector<int>{-1, 2, 3}), aniso = rng.range(0, 1), div = rng.range(0, 2);
                PolarGrid gp(rng.pick(std::vector<double>{1e-5, 1e-2, 0.3}), 1.3, nr_exp, nt_exp, 0.66, aniso < nr_exp ? aniso : 0, div);
                if (gp.numberOfNodes() <= 4000) dump_grid(gp, std::nullopt, rng, false, 2);
            }
        }
        catch (const std::exception& e) {
            printf("G-throw nr=%d nt=%d %s\n", nr, nt, e.what());
        }
    }
    printf("end\n");
    return 0;
}
