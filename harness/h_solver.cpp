// Solver-level harness (C10, C01, C09 start-up, C13, C20): real GMGPolar objects driven through the command-line
// parser; private cycles / start-up are run through the GMGPolarVerif friend and their vector-level operations are
// logged by the GMGPOLAR_VERIF hooks ("program = trace").
//   h_solver cycle <seed-cases>      one private cycle per configuration: trace + numeric oracles
//   h_solver fmg <cases>             initializeSolution(): trace + stale-buffer oracle
//   h_solver solve <cases> <nr_exp>  setup()+solve(): trace, norms, stop, independent residual
//   h_solver reuse <cases>           histories of (option change, setup, solve) on one object vs fresh objects
#include "common.hpp"
#include "GMGPolar/gmgpolar.h"
#include "Residual/ResidualGive/residualGive.h"
#include "Residual/ResidualTake/residualTake.h"
#include <sstream>
#include <map>

#ifndef GMGPOLAR_VERIF
#error "build with -DGMGPOLAR_VERIF"
#endif

struct GMGPolarVerif {
    GMGPolar& s;
    explicit GMGPolarVerif(GMGPolar& g) : s(g) {}
    int levels() const { return s.number_of_levels_; }
    Level& level(int l) { return s.levels_[l]; }
    bool& fgs() { return s.full_grid_smoothing_; }
    std::vector<double>& norms() { return s.residual_norms_; }
    std::vector<std::pair<double, double>>& errors() { return s.exact_errors_; }
    void cycle(int kind, bool extrap, int d, Vector<double>& x, Vector<double>& rhs, Vector<double>& tmp)
    {
        if (!extrap) {
            if (kind == 0) s.multigrid_V_Cycle(d, x, rhs, tmp);
            else if (kind == 1) s.multigrid_W_Cycle(d, x, rhs, tmp);
            else s.multigrid_F_Cycle(d, x, rhs, tmp);
        }
        else {
            if (kind == 0) s.implicitlyExtrapolatedMultigrid_V_Cycle(d, x, rhs, tmp);
            else if (kind == 1) s.implicitlyExtrapolatedMultigrid_W_Cycle(d, x, rhs, tmp);
            else s.implicitlyExtrapolatedMultigrid_F_Cycle(d, x, rhs, tmp);
        }
    }
    void initializeSolution() { s.initializeSolution(); }
    const Interpolation& interp() { return *s.interpolation_; }
    const DomainGeometry& geo() { return *s.domain_geometry_; }
    const DensityProfileCoefficients& coef() { return *s.density_profile_coefficients_; }
    void extrapolatedResidual(int l, Vector<double>& r, const Vector<double>& rn) { s.extrapolatedResidual(l, r, rn); }
    double rho_raw() { return s.mean_residual_reduction_factor_; }
    const SourceTerm& source() { return *s.source_term_; }
    const BoundaryConditions& boundary() { return *s.boundary_conditions_; }
    std::vector<int>& threads() { return s.threads_per_level_; }
    const ExactSolution* exact() { return s.exact_solution_.get(); }
    int chooseLevels(const PolarGrid& g, int max_levels) { s.max_levels_ = max_levels; return s.chooseNumberOfLevels(g); }
};

// ---- trace rendering: map Vector addresses back to (level, buffer)
static std::string ref_name(GMGPolarVerif& v, const void* p)
{
    if (!p) return "-";
    for (int l = 0; l < v.levels(); l++) {
        Level& L = v.level(l);
        if (p == &L.solution()) return std::to_string(l) + ".sol";
        if (p == &L.rhs()) return std::to_string(l) + ".rhs";
        if (p == &L.residual()) return std::to_string(l) + ".res";
        if (p == &L.error_correction()) return std::to_string(l) + ".err";
    }
    return "?";
}
static std::string render_trace(GMGPolarVerif& v)
{
    std::string out;
    for (const VerifEvent& e : VerifSink::events()) {
        std::string op = e.op, t;
        if (op == "smooth" || op == "exSmooth" || op == "residual")
            t = op + " " + std::to_string(e.level) + " " + ref_name(v, e.a) + " " + ref_name(v, e.b) + " " + ref_name(v, e.c);
        else if (op == "restrict" || op == "exRestrict" || op == "inject" || op == "prolong" || op == "exProlong" || op == "fmgInterp" || op == "exResidual")
            t = op + " " + std::to_string(e.level) + " " + ref_name(v, e.a) + " " + ref_name(v, e.b);
        else if (op == "directSolve")
            t = op + " " + std::to_string(e.level) + " " + ref_name(v, e.a);
        else if (op == "assign")
            t = (e.s1 == 0.0 ? std::string("zero ") : "assign[" + hex(e.s1) + "] ") + ref_name(v, e.a);
        else if (op == "add" || op == "copy")
            t = op + " " + ref_name(v, e.a) + " " + ref_name(v, e.b);
        else if (op == "linComb")
            t = ((e.s1 == 4.0 / 3.0 && e.s2 == -1.0 / 3.0) ? std::string("lin43 ") : "linComb[" + hex(e.s1) + "," + hex(e.s2) + "] ") + ref_name(v, e.a) + " " + ref_name(v, e.b);
        else if (op == "norm")
            t = "norm " + std::to_string(e.level) + " " + hex(e.s1) + " " + std::to_string((long)e.s2);
        else if (op == "stoptest")
            t = "stoptest " + std::to_string(e.level) + " " + hex(e.s1) + " " + hex(e.s2);
        else
            t = "unknown:" + op;
        if (!out.empty()) out += ";";
        out += t;
    }
    return out;
}
static void trace_on() { VerifSink::events().clear(); VerifSink::depth() = 0; VerifSink::enabled() = true; }
static void trace_off() { VerifSink::enabled() = false; }

// ---- configurations through the command-line parser
struct Opts {
    std::map<std::string, std::string> kv;
    void set(const std::string& k, const std::string& v) { kv[k] = v; }
    void set(const std::string& k, int v) { kv[k] = std::to_string(v); }
    void set(const std::string& k, double v) { char b[64]; snprintf(b, sizeof b, "%.17g", v); kv[k] = b; }
    std::string str() const { std::string s; for (auto& e : kv) s += "--" + e.first + " " + e.second + " "; return s; }
    void apply(GMGPolar& g) const
    {
        std::vector<std::string> a{"gmgpolar"};
        for (auto& e : kv) { a.push_back("--" + e.first); a.push_back(e.second); }
        std::vector<char*> argv;
        for (auto& s : a) argv.push_back(const_cast<char*>(s.c_str()));
        g.setParameters((int)argv.size(), argv.data());
    }
};
static Opts base_opts(Rng& rng, int nr_exp)
{
    Opts o;
    o.set("verbose", 0);
    o.set("nr_exp", nr_exp);
    o.set("ntheta_exp", -1);
    o.set("geometry", rng.range(0, 2));
    o.set("kappa_eps", rng.uniform(0.0, 0.4));
    o.set("delta_e", rng.uniform(0.0, 0.25));
    if (o.kv["geometry"] == "2") { o.set("kappa_eps", rng.uniform(0.1, 0.4)); o.set("delta_e", rng.uniform(1.0, 1.8)); }
    o.set("problem", rng.range(0, 2));
    o.set("alpha_coeff", rng.range(0, 3));
    o.set("beta_coeff", rng.range(0, 1));
    { double Rmax = rng.pick(std::vector<double>{1.3, 1.3, 1.3, 1.0, 2.0}); o.set("Rmax", Rmax); o.set("alpha_jump", 0.7081 * Rmax); }
    o.set("DirBC_Interior", rng.range(0, 1));
    // disc-like domains and genuine annuli (on an annulus the automatic circle / radial splits of neighbouring levels need not nest)
    o.set("R0", rng.pick(std::vector<double>{1e-5, 1e-2, 1e-5, 1e-2, 0.13, 0.3}));
    o.set("stencilDistributionMethod", rng.range(0, 1));
    o.set("cacheDensityProfileCoefficients", 1);
    o.set("cacheDomainGeometry", 1);
    // the give strategy (1) also runs without caches or with one of them; take (0) requires both
    if (o.kv["stencilDistributionMethod"] == "1" && rng.coin(0.5)) { o.set("cacheDensityProfileCoefficients", rng.range(0, 1)); o.set("cacheDomainGeometry", rng.range(0, 1)); }
    o.set("maxOpenMPThreads", rng.coin() ? 1 : 4);
    return o;
}
static std::vector<double> vec_of(const Vector<double>& v) { return std::vector<double>(v.begin(), v.end()); }
static double max_abs(const Vector<double>& v) { double m = 0; for (int i = 0; i < v.size(); i++) m = std::max(m, std::abs(v[i])); return m; }
static void fill_garbage(Rng& rng, Vector<double>& v) { for (int i = 0; i < v.size(); i++) v[i] = rng.uniform(-1e3, 1e3); }

// ---------------------------------------------------------------------------------------------- cycle
// Textbook correction scheme composed from the PUBLIC operators with fresh local vectors (no buffer rotation, no shared scratch):
// the implementation oracle for every private cycle — whatever the cycles do with the four work vectors per level, the new iterate
// must be this one.  `plain` : u <- S^nu2 ( u' ),  u' = S^nu1(u) + P e,  e = coarse(R (f - A S^nu1 u)),  coarse = direct solve on the
// last level, else one (V), two (W) or F-then-V (F) recursive cycles started from zero.
static void ref_plain(GMGPolarVerif& v, int L, int kind, int nu1, int nu2, int d, Vector<double>& x, const Vector<double>& rhs)
{
    Level& lv = v.level(d);
    int n = lv.grid().numberOfNodes();
    Vector<double> tmp(n), r(n);
    for (int i = 0; i < n; i++) tmp[i] = 0.0;
    for (int s = 0; s < nu1; s++) lv.smoothing(x, rhs, tmp);
    lv.computeResidual(r, rhs, x);
    Level& nx = v.level(d + 1);
    int nc = nx.grid().numberOfNodes();
    Vector<double> rc(nc), e(nc), pe(n);
    v.interp().applyRestriction(lv, nx, rc, r);
    if (d + 1 == L - 1) { e = rc; nx.directSolveInPlace(e); }
    else {
        for (int i = 0; i < nc; i++) e[i] = 0.0;
        if (kind == 0) ref_plain(v, L, 0, nu1, nu2, d + 1, e, rc);
        else if (kind == 1) { ref_plain(v, L, 1, nu1, nu2, d + 1, e, rc); ref_plain(v, L, 1, nu1, nu2, d + 1, e, rc); }
        else { ref_plain(v, L, 2, nu1, nu2, d + 1, e, rc); ref_plain(v, L, 0, nu1, nu2, d + 1, e, rc); }
    }
    v.interp().applyProlongation(nx, lv, pe, e);
    for (int i = 0; i < n; i++) x[i] += pe[i];
    for (int s = 0; s < nu2; s++) lv.smoothing(x, rhs, tmp);
}
// extrapolated cycle on level 0: coarse right-hand side 4/3 R_ex (f - A u) - 1/3 (f_1 - A_1 inj u), extrapolated prolongation
static void ref_extrap(GMGPolarVerif& v, int L, int kind, int nu1, int nu2, bool fgs, Vector<double>& x, const Vector<double>& rhs)
{
    Level& lv = v.level(0);
    Level& nx = v.level(1);
    int n = lv.grid().numberOfNodes(), nc = nx.grid().numberOfNodes();
    Vector<double> tmp(n), r(n), rc(nc), xc(nc), r1(nc), e(nc), pe(n);
    for (int i = 0; i < n; i++) tmp[i] = 0.0;
    auto sm = [&]() { if (fgs) lv.smoothing(x, rhs, tmp); else lv.extrapolatedSmoothing(x, rhs, tmp); };
    for (int s = 0; s < nu1; s++) sm();
    lv.computeResidual(r, rhs, x);
    v.interp().applyExtrapolatedRestriction(lv, nx, rc, r);
    v.interp().applyInjection(lv, nx, xc, x);
    nx.computeResidual(r1, nx.rhs(), xc);
    for (int i = 0; i < nc; i++) rc[i] = 4.0 / 3.0 * rc[i] + -1.0 / 3.0 * r1[i];
    if (1 == L - 1) { e = rc; nx.directSolveInPlace(e); }
    else {
        for (int i = 0; i < nc; i++) e[i] = 0.0;
        if (kind == 0) ref_plain(v, L, 0, nu1, nu2, 1, e, rc);
        else if (kind == 1) { ref_plain(v, L, 1, nu1, nu2, 1, e, rc); ref_plain(v, L, 1, nu1, nu2, 1, e, rc); }
        else { ref_plain(v, L, 2, nu1, nu2, 1, e, rc); ref_plain(v, L, 0, nu1, nu2, 1, e, rc); }
    }
    v.interp().applyExtrapolatedProlongation(nx, lv, pe, e);
    for (int i = 0; i < n; i++) x[i] += pe[i];
    for (int s = 0; s < nu2; s++) sm();
}
static int mode_cycle(int reps)
{
    Rng rng(seed_from_env());
    int case_no = 0;
    for (int rep = 0; rep < reps; rep++)
        for (int kind = 0; kind < 3; kind++)
            for (int extrap = 0; extrap < 2; extrap++)
                for (int L = 2; L <= 5; L++) {
                    int nu1 = rng.range(0, 2), nu2 = rng.range(0, 2);
                    bool fgs = extrap && rng.coin(0.3);
                    int nr_exp = L <= 3 ? 4 : (L == 4 ? 5 : 6);
                    Opts o = base_opts(rng, nr_exp);
                    o.set("maxLevels", L);
                    o.set("preSmoothingSteps", nu1);
                    o.set("postSmoothingSteps", nu2);
                    o.set("multigridCycle", kind);
                    o.set("extrapolation", extrap ? (fgs ? 2 : 1) : 0);
                    o.set("FMG", 0);
                    GMGPolar g;
                    o.apply(g);
                    g.setup();
                    GMGPolarVerif v(g);
                    if (v.levels() != L) { printf("SKIP levels=%d wanted=%d\n", v.levels(), L); continue; }
                    Level& l0 = v.level(0);
                    // start from a random iterate, every scratch vector holds garbage
                    for (int l = 0; l < L; l++) { fill_garbage(rng, v.level(l).solution()); fill_garbage(rng, v.level(l).residual()); if (l > 0) fill_garbage(rng, v.level(l).error_correction()); }
                    Vector<double> rhs0 = l0.rhs();
                    trace_on();
                    v.cycle(kind, extrap, 0, l0.solution(), l0.rhs(), l0.residual());
                    trace_off();
                    printf("CYC case=%d kind=%d extrap=%d L=%d nu1=%d nu2=%d fgs=%d opts=[%s] trace=%s\n", case_no++, kind, extrap, L, nu1, nu2, (int)v.fgs(), o.str().c_str(),
                           render_trace(v).c_str());
                    bool rhs_same = true;
                    for (int i = 0; i < rhs0.size(); i++) if (rhs0[i] != l0.rhs()[i]) rhs_same = false;
                    printf("ORC case=%d rhs_untouched=%d\n", case_no - 1, (int)rhs_same);
                    {
                        // oracle 0: the cycle (scratch vectors full of garbage) against the textbook recursion on the same start iterate
                        Vector<double> u0(l0.grid().numberOfNodes());
                        fill_garbage(rng, u0);
                        Vector<double> uref = u0;
                        if (extrap) ref_extrap(v, L, kind, nu1, nu2, v.fgs(), uref, l0.rhs());
                        else ref_plain(v, L, kind, nu1, nu2, 0, uref, l0.rhs());
                        for (int l = 0; l < L; l++) { fill_garbage(rng, v.level(l).residual()); if (l > 0) { fill_garbage(rng, v.level(l).error_correction()); fill_garbage(rng, v.level(l).solution()); } }
                        l0.solution() = u0;
                        v.cycle(kind, extrap, 0, l0.solution(), l0.rhs(), l0.residual());
                        double dd = 0;
                        for (int i = 0; i < uref.size(); i++) dd = std::max(dd, std::abs(uref[i] - l0.solution()[i]));
                        printf("ORC case=%d textbook_cycle_diff=%s scale=%s kind=%d extrap=%d L=%d nu1=%d nu2=%d fgs=%d\n", case_no - 1, hex(dd).c_str(), hex(max_abs(uref)).c_str(), kind, extrap, L, nu1, nu2, (int)v.fgs());
                    }
                    if (!extrap && L >= 3) {
                        // oracle 0b: the same for a cycle ENTERED BELOW THE FINEST LEVEL with a real iterate, the way the nested iteration of
                        // initializeSolution() calls it (multigrid_X_Cycle(l, solution_l, rhs_l, residual_l)): textbook recursion on levels 1 … L-1
                        Level& l1 = v.level(1);
                        const int n1 = l1.grid().numberOfNodes();
                        Vector<double> u1(n1), f1(n1);
                        fill_garbage(rng, u1);
                        for (int i = 0; i < n1; i++) f1[i] = rng.uniform(-1.0, 1.0);
                        Vector<double> uref = u1;
                        ref_plain(v, L, kind, nu1, nu2, 1, uref, f1);
                        for (int l = 1; l < L; l++) { fill_garbage(rng, v.level(l).residual()); fill_garbage(rng, v.level(l).error_correction()); if (l > 1) fill_garbage(rng, v.level(l).solution()); }
                        l1.solution() = u1;
                        v.cycle(kind, false, 1, l1.solution(), f1, l1.residual());
                        double dd = 0;
                        for (int i = 0; i < n1; i++) dd = std::max(dd, std::abs(uref[i] - l1.solution()[i]));
                        printf("ORC case=%d textbook_cycle_diff=%s scale=%s kind=%d extrap=0 L=%d nu1=%d nu2=%d fgs=%d entered_on_level=1\n", case_no - 1, hex(dd).c_str(), hex(max_abs(uref)).c_str(), kind, L, nu1, nu2, (int)v.fgs());
                    }
                    if (!extrap) {
                        // oracle 1: started from the exact discrete solution the cycle returns it (scratch = garbage)
                        l0.initializeDirectSolver(v.geo(), v.coef(), g.DirBC_Interior(), 1, g.stencilDistributionMethod());
                        Vector<double> ustar = l0.rhs();
                        l0.directSolveInPlace(ustar);
                        for (int l = 0; l < L; l++) { fill_garbage(rng, v.level(l).residual()); if (l > 0) { fill_garbage(rng, v.level(l).error_correction()); fill_garbage(rng, v.level(l).solution()); } }
                        l0.solution() = ustar;
                        v.cycle(kind, false, 0, l0.solution(), l0.rhs(), l0.residual());
                        double d = 0;
                        for (int i = 0; i < ustar.size(); i++) d = std::max(d, std::abs(ustar[i] - l0.solution()[i]));
                        printf("ORC case=%d exact_fixed_change=%s scale=%s\n", case_no - 1, hex(d).c_str(), hex(max_abs(ustar)).c_str());
                        // oracle 2: two levels, no smoothing: u + P A_c^{-1} R (f - A u) from the public operators
                        if (L == 2 && nu1 == 0 && nu2 == 0) {
                            Level& l1 = v.level(1);
                            Vector<double> u(l0.grid().numberOfNodes());
                            fill_garbage(rng, u);
                            Vector<double> r(u.size()), rc(l1.grid().numberOfNodes()), pc(u.size());
                            l0.computeResidual(r, l0.rhs(), u);
                            v.interp().applyRestriction(l0, l1, rc, r);
                            l1.directSolveInPlace(rc);
                            v.interp().applyProlongation(l1, l0, pc, rc);
                            Vector<double> expect = u;
                            for (int i = 0; i < u.size(); i++) expect[i] += pc[i];
                            l0.solution() = u;
                            fill_garbage(rng, l0.residual()); fill_garbage(rng, l1.residual()); fill_garbage(rng, l1.error_correction()); fill_garbage(rng, l1.solution());
                            v.cycle(kind, false, 0, l0.solution(), l0.rhs(), l0.residual());
                            double dd = 0;
                            for (int i = 0; i < u.size(); i++) dd = std::max(dd, std::abs(expect[i] - l0.solution()[i]));
                            printf("ORC case=%d two_level_diff=%s scale=%s\n", case_no - 1, hex(dd).c_str(), hex(max_abs(expect)).c_str());
                        }
                    }
                    else if (L == 2 && nu1 == 0 && nu2 == 0) {
                        // extrapolated two-level correction: u + P_ex A_c^{-1} (4/3 R_ex (f - A u) - 1/3 (f_c - A_c inj u))
                        Level& l1 = v.level(1);
                        Vector<double> u(l0.grid().numberOfNodes());
                        fill_garbage(rng, u);
                        Vector<double> r(u.size()), rc(l1.grid().numberOfNodes()), uc(rc.size()), r2(rc.size()), pc(u.size());
                        l0.computeResidual(r, l0.rhs(), u);
                        v.interp().applyExtrapolatedRestriction(l0, l1, rc, r);
                        v.interp().applyInjection(l0, l1, uc, u);
                        l1.computeResidual(r2, l1.rhs(), uc);
                        for (int i = 0; i < rc.size(); i++) rc[i] = 4.0 / 3.0 * rc[i] + -1.0 / 3.0 * r2[i];
                        l1.directSolveInPlace(rc);
                        v.interp().applyExtrapolatedProlongation(l1, l0, pc, rc);
                        Vector<double> expect = u;
                        for (int i = 0; i < u.size(); i++) expect[i] += pc[i];
                        l0.solution() = u;
                        fill_garbage(rng, l0.residual()); fill_garbage(rng, l1.residual()); fill_garbage(rng, l1.error_correction()); fill_garbage(rng, l1.solution());
                        v.cycle(kind, true, 0, l0.solution(), l0.rhs(), l0.residual());
                        double dd = 0;
                        for (int i = 0; i < u.size(); i++) dd = std::max(dd, std::abs(expect[i] - l0.solution()[i]));
                        printf("ORC case=%d two_level_ex_diff=%s scale=%s\n", case_no - 1, hex(dd).c_str(), hex(max_abs(expect)).c_str());
                    }
                }
    printf("end\n");
    return 0;
}

// ---------------------------------------------------------------------------------------------- fmg
static int mode_fmg(int cases)
{
    Rng rng(seed_from_env());
    for (int c = 0; c < cases; c++) {
        int L = rng.range(2, 5);
        int nr_exp = L <= 3 ? 4 : (L == 4 ? 5 : 6);
        int extrap = rng.pick(std::vector<int>{0, 0, 1, 3});
        int fmg_cycle = rng.range(0, 2), fmg_it = rng.range(0, 2);
        Opts o = base_opts(rng, nr_exp);
        o.set("maxLevels", L);
        o.set("extrapolation", extrap);
        o.set("FMG", 1);
        o.set("FMG_iterations", fmg_it);
        o.set("FMG_cycle", fmg_cycle);
        o.set("preSmoothingSteps", 1);
        o.set("postSmoothingSteps", 1);
        GMGPolar g;
        o.apply(g);
        g.setup();
        GMGPolarVerif v(g);
        if (v.levels() != L) { printf("SKIP\n"); continue; }
        // two runs with different stale contents of every solution / scratch buffer
        std::vector<double> first;
        bool differs = false;
        std::string trace;
        for (int run = 0; run < 2; run++) {
            for (int l = 0; l < L; l++) {
                double val = run == 0 ? 0.0 : 7.0;
                for (int i = 0; i < v.level(l).solution().size(); i++) { v.level(l).solution()[i] = val; v.level(l).residual()[i] = -val; }
                if (l > 0) for (int i = 0; i < v.level(l).error_correction().size(); i++) v.level(l).error_correction()[i] = 2 * val;
            }
            trace_on();
            v.initializeSolution();
            trace_off();
            if (run == 0) { first = vec_of(v.level(0).solution()); trace = render_trace(v); }
            else {
                for (size_t i = 0; i < first.size(); i++) if (first[i] != v.level(0).solution()[i]) differs = true;
            }
        }
        printf("FMG case=%d L=%d extrap=%d fmg_cycle=%d fmg_it=%d fgs=%d stale_dependent=%d trace=%s\n", c, L, extrap != 0, fmg_cycle, fmg_it, (int)v.fgs(), (int)differs, trace.c_str());
        if (L == 2 && fmg_it == 0) {
            // start vector must be the FMG interpolation of the coarse direct solution
            Level& l1 = v.level(1);
            Vector<double> uc = l1.rhs();
            l1.directSolveInPlace(uc);
            Vector<double> expect(v.level(0).grid().numberOfNodes());
            v.interp().applyFMGInterpolation(l1, v.level(0), expect, uc);
            double d = 0;
            for (int i = 0; i < expect.size(); i++) d = std::max(d, std::abs(expect[i] - v.level(0).solution()[i]));
            printf("ORC case=%d fmg_two_level_diff=%s scale=%s\n", c, hex(d).c_str(), hex(max_abs(expect)).c_str());
        }
        if (fmg_it == 0 && extrap != 0) {
            // without FMG cycles the start vector is "coarsest direct solve, then interpolate level by level": no smoother, no cycle —
            // it cannot depend on the extrapolation mode.  Twin object with extrapolation off, otherwise the same options.
            Opts o2 = o;
            o2.set("extrapolation", 0);
            GMGPolar g2;
            o2.apply(g2);
            g2.setup();
            GMGPolarVerif v2(g2);
            if (v2.levels() == L) {
                v2.initializeSolution();
                double d = 0, sc = 0;
                for (int i = 0; i < v.level(0).solution().size(); i++) { d = std::max(d, std::abs(v.level(0).solution()[i] - v2.level(0).solution()[i])); sc = std::max(sc, std::abs(v2.level(0).solution()[i])); }
                printf("ORC case=%d fmg_start_depends_on_extrapolation_diff=%s scale=%s L=%d extrap=%d fmg_cycle=%d\n", c, hex(d).c_str(), hex(sc).c_str(), L, extrap, fmg_cycle);
            }
        }
    }
    // C09 through the public interface: the start vector (solve() with maxIterations = 0) of an object that has already run a
    // full solve must be bit-identical to the start vector of a fresh object — for every extrapolation mode (COMBINED switches the
    // smoother at run time from the residual history of the EARLIER solve), FMG cycle type and iteration count
    {
        int k = 0;
        for (int extrap : {3, 1, 0, 2})
            for (int fmg_it : {2, 1, 0})
                for (int fmg_cycle : {0, 2}) {
                    if (k++ >= std::max(4, cases / 4)) break;
                    Opts o = base_opts(rng, 4);
                    o.set("maxLevels", fmg_cycle == 2 && fmg_it == 1 ? 2 : -1);
                    o.set("extrapolation", extrap); o.set("FMG", 1); o.set("FMG_iterations", fmg_it); o.set("FMG_cycle", fmg_cycle);
                    o.set("multigridCycle", 0); o.set("preSmoothingSteps", 1); o.set("postSmoothingSteps", 1); o.set("residualNormType", 0);
                    o.set("absoluteTolerance", 1e-10); o.set("relativeTolerance", 1e-10); o.set("maxOpenMPThreads", 1);
                    o.set("maxIterations", 0);
                    GMGPolar fresh;
                    o.apply(fresh);
                    fresh.setup();
                    fresh.solve();
                    std::vector<double> sf = vec_of(fresh.solution());
                    GMGPolar used;
                    o.set("maxIterations", 60);
                    o.apply(used);
                    used.setup();
                    used.solve();
                    int its = used.numberOfIterations();
                    used.maxIterations(0);
                    used.solve();
                    std::vector<double> su = vec_of(used.solution());
                    int ndiff = 0; double dmax = 0;
                    for (size_t i = 0; i < sf.size(); i++) if (sf[i] != su[i]) { ndiff++; dmax = std::max(dmax, std::abs(sf[i] - su[i])); }
                    printf("ORC case=used%d fmg_used_object_differs=%d of=%zu extrap=%d fmg_it=%d fmg_cycle=%d earlier_solve_iterations=%d maxdiff=%s opts=[%s]\n", k, ndiff, sf.size(), extrap, fmg_it,
                           fmg_cycle, its, hex(dmax).c_str(), o.str().c_str());
                }
    }
    printf("end\n");
    return 0;
}

// independent residual of the returned solution from the problem data with freshly built operators; the level right-hand sides
// are the copies taken right after setup(), so nothing solve() does to the level vectors can leak into this oracle
static double independent_residual_norm(GMGPolar& g, GMGPolarVerif& v, int extrap, int norm_type, const Vector<double>& rhs0, const Vector<double>& rhs1)
{
    const PolarGrid& grid = g.grid();
    LevelCache cache(grid, v.coef(), v.geo(), true, true);
    ResidualTake R0(grid, cache, v.geo(), v.coef(), g.DirBC_Interior(), 1);
    Vector<double> r(grid.numberOfNodes());
    R0.computeResidual(r, rhs0, g.solution());
    if (extrap != 0) {
        PolarGrid cg = coarseningGrid(grid);
        LevelCache ccache(cg, v.coef(), v.geo(), true, true);
        ResidualTake R1(cg, ccache, v.geo(), v.coef(), g.DirBC_Interior(), 1);
        Vector<double> uc(cg.numberOfNodes()), rc(cg.numberOfNodes());
        for (int i = 0; i < cg.nr(); i++) for (int j = 0; j < cg.ntheta(); j++) uc[cg.index(i, j)] = g.solution()[grid.index(2 * i, 2 * j)];
        R1.computeResidual(rc, rhs1, uc);
        for (int i = 0; i < grid.nr(); i++) for (int j = 0; j < grid.ntheta(); j++) {
            int idx = grid.index(i, j);
            if ((i & 1) || (j & 1)) r[idx] *= 4.0 / 3.0;
            else r[idx] = (4.0 * r[idx] - rc[cg.index(i / 2, j / 2)]) / 3.0;
        }
    }
    double s = 0, m = 0;
    for (int i = 0; i < r.size(); i++) { s += r[i] * r[i]; m = std::max(m, std::abs(r[i])); }
    if (norm_type == 0) return std::sqrt(s);
    if (norm_type == 1) return std::sqrt(s) / std::sqrt((double)r.size());
    return m;
}

// ---------------------------------------------------------------------------------------------- solve
static Opts random_solve_opts(Rng& rng, int nr_exp)
{
    Opts o = base_opts(rng, nr_exp);
    o.set("extrapolation", rng.pick(std::vector<int>{0, 1, 2, 3}));
    o.set("multigridCycle", rng.range(0, 2));
    o.set("FMG", rng.range(0, 1));
    o.set("FMG_iterations", rng.range(0, 2));
    o.set("FMG_cycle", rng.range(0, 2));
    o.set("preSmoothingSteps", rng.range(1, 2));
    o.set("postSmoothingSteps", rng.range(1, 2));
    o.set("maxLevels", rng.pick(std::vector<int>{-1, -1, 2, 3}));
    o.set("residualNormType", rng.range(0, 2));
    o.set("maxIterations", rng.pick(std::vector<int>{150, 150, 150, 3, 1}));
    o.set("absoluteTolerance", rng.pick(std::vector<double>{1e-8, 1e-10, -1.0}));
    o.set("relativeTolerance", rng.pick(std::vector<double>{1e-8, 1e-6, -1.0}));
    return o;
}

// known finding F10: the documented diverging V(1,1) configuration class, everything else at its command-line default
static Opts f10_opts()
{
    Opts o;
    o.set("verbose", 0); o.set("geometry", 1); o.set("kappa_eps", 0.3); o.set("delta_e", 0.2); o.set("alpha_coeff", 2); o.set("R0", 0.1);
    o.set("DirBC_Interior", 1); o.set("nr_exp", 6); o.set("extrapolation", 0); o.set("multigridCycle", 0); o.set("FMG", 0); o.set("FMG_iterations", 2); o.set("FMG_cycle", 0);
    o.set("preSmoothingSteps", 1); o.set("postSmoothingSteps", 1); o.set("maxLevels", -1); o.set("residualNormType", 0); o.set("maxIterations", 150);
    o.set("absoluteTolerance", 1e-8); o.set("relativeTolerance", 1e-8); o.set("problem", 0); o.set("beta_coeff", 0); o.set("alpha_jump", 0.7081 * 1.3);
    o.set("stencilDistributionMethod", 1); o.set("cacheDensityProfileCoefficients", 1); o.set("cacheDomainGeometry", 1); o.set("maxOpenMPThreads", 4);
    return o;
}

static int mode_solve(int cases, int nr_exp)
{
    Rng rng(seed_from_env());
    for (int c = 0; c < cases; c++) {
        Opts o = cases == 1 && nr_exp == -10 ? f10_opts() : random_solve_opts(rng, nr_exp);
        // the first 18 cases cover (cycle type) x (no / implicit / combined extrapolation) x (two levels / full depth) with a full iteration
        // budget and both tolerances, whatever the seed: the convergence oracle then sees every cycle file and both coarse-solve branches
        if (!(cases == 1 && nr_exp == -10) && c < 18 && cases >= 18) {
            o.set("multigridCycle", c % 3); o.set("extrapolation", std::vector<int>{0, 1, 3}[(c / 3) % 3]); o.set("maxLevels", (c / 9) % 2 == 0 ? 2 : -1);
            o.set("maxIterations", 150); o.set("absoluteTolerance", 1e-8); o.set("relativeTolerance", 1e-8);
        }
        if (o.kv["absoluteTolerance"] == "-1" && o.kv["relativeTolerance"] == "-1") o.set("maxIterations", 3);
        GMGPolar g;
        o.apply(g);
        g.setup();
        GMGPolarVerif v(g);
        const Vector<double> rhs0 = v.level(0).rhs(), rhs1 = v.levels() > 1 ? v.level(1).rhs() : Vector<double>(0);
        trace_on();
        g.solve();
        trace_off();
        int extrap = atoi(o.kv["extrapolation"].c_str());
        double indep = independent_residual_norm(g, v, extrap, atoi(o.kv["residualNormType"].c_str()), rhs0, rhs1);
        double finite = 1;
        for (int i = 0; i < g.solution().size(); i++) if (!std::isfinite(g.solution()[i])) finite = 0;
        printf("SOL case=%d L=%d extrap=%d kind=%s fmg=%s fmg_it=%s fmg_cycle=%s nu1=%s nu2=%s maxit=%s abstol=%s reltol=%s norm=%s it=%d rho=%s indep=%s n0=%s finite=%d nnorms=%zu opts=[%s] trace=%s\n", c,
               v.levels(), extrap, o.kv["multigridCycle"].c_str(), o.kv["FMG"].c_str(), o.kv["FMG_iterations"].c_str(), o.kv["FMG_cycle"].c_str(), o.kv["preSmoothingSteps"].c_str(),
               o.kv["postSmoothingSteps"].c_str(), o.kv["maxIterations"].c_str(), hex(atof(o.kv["absoluteTolerance"].c_str())).c_str(), hex(atof(o.kv["relativeTolerance"].c_str())).c_str(),
               o.kv["residualNormType"].c_str(), g.numberOfIterations(), hex(g.meanResidualReductionFactor()).c_str(), hex(indep).c_str(), v.norms().empty() ? "-" : hex(v.norms().front()).c_str(), (int)finite, v.norms().size(),
               o.str().c_str(), render_trace(v).c_str());
        // C20: the reported error figures are a function of the solve — after an early stop they describe the returned solution
        if (v.exact() && g.numberOfIterations() < atoi(o.kv["maxIterations"].c_str()) && (o.kv["absoluteTolerance"] != "-1" || o.kv["relativeTolerance"] != "-1")) {
            const PolarGrid& gr = g.grid();
            long double s2 = 0; double mx = 0;
            for (int i = 0; i < gr.nr(); i++) for (int j = 0; j < gr.ntheta(); j++) {
                double r = gr.radius(i), th = gr.theta(j);
                double e = v.exact()->exact_solution(r, th, sin(th), cos(th)) - g.solution()[gr.index(i, j)];
                s2 += (long double)e * e; mx = std::max(mx, std::abs(e));
            }
            double w = (double)(sqrtl(s2) / sqrtl((long double)gr.numberOfNodes()));
            auto a = g.exactErrorWeightedEuclidean(), b = g.exactErrorInfinity();
            printf("ORC case=%d reported_error_l2=%s recomputed_error_l2=%s reported_error_inf=%s recomputed_error_inf=%s threads=%s opts=[%s]\n", c, hex(a ? *a : -1.0).c_str(), hex(w).c_str(), hex(b ? *b : -1.0).c_str(),
                   hex(mx).c_str(), o.kv["maxOpenMPThreads"].c_str(), o.str().c_str());
        }
        // C01 also holds for a repeated solve() on the same object (no setup() in between): same convergence within the budget
        if (c % 3 == 0 && atoi(o.kv["maxIterations"].c_str()) >= 100 && extrap != 2) {
            int it1 = g.numberOfIterations();
            g.solve();
            double indep2 = independent_residual_norm(g, v, extrap, atoi(o.kv["residualNormType"].c_str()), rhs0, rhs1);
            printf("ORC case=%d second_solve_it=%d first_solve_it=%d maxit=%s second_solve_rho=%s indep=%s abstol=%s reltol=%s n0=%s opts=[%s]\n", c, g.numberOfIterations(), it1, o.kv["maxIterations"].c_str(),
                   hex(g.meanResidualReductionFactor()).c_str(), hex(indep2).c_str(), hex(atof(o.kv["absoluteTolerance"].c_str())).c_str(), hex(atof(o.kv["relativeTolerance"].c_str())).c_str(),
                   v.norms().empty() ? "-" : hex(v.norms().front()).c_str(), o.str().c_str());
        }
    }
    printf("end\n");
    return 0;
}

// ---------------------------------------------------------------------------------------------- reuse
static std::string result_sig(GMGPolar& g)
{
    // solution bits (hashed), iterations, rho, errors
    uint64_t h = 1469598103934665603ULL;
    for (int i = 0; i < g.solution().size(); i++) { uint64_t b; double d = g.solution()[i]; memcpy(&b, &d, 8); h = (h ^ b) * 1099511628211ULL; }
    char buf[200];
    auto e1 = g.exactErrorWeightedEuclidean(), e2 = g.exactErrorInfinity();
    snprintf(buf, sizeof buf, "sol=%016llx it=%d rho=%s e2=%s einf=%s", (unsigned long long)h, g.numberOfIterations(), hex(g.meanResidualReductionFactor()).c_str(),
             e1 ? hex(*e1).c_str() : "-", e2 ? hex(*e2).c_str() : "-");
    return buf;
}
// directed corpus (runs first): solve() called repeatedly on one object WITHOUT a setup() in between, for every extrapolation mode with
// and without FMG — the histories in which per-solve state (smoother switch, residual history, start-up flags) can leak
static void reuse_corpus()
{
    struct D { int extrap, fmg, geom, strat; };
    std::vector<D> ds;
    for (int geom = 0; geom < 3; geom++) for (int strat = 0; strat < 2; strat++) ds.push_back({3, 1, geom, strat});
    for (int extrap = 0; extrap < 3; extrap++) for (int fmg = 0; fmg < 2; fmg++) ds.push_back({extrap, fmg, 1, 1});
    ds.push_back({3, 0, 1, 1});
    int c = 0;
    for (const D& d : ds) {
        Rng rng(12345 + c);
        Opts o = base_opts(rng, 4);
        o.set("geometry", d.geom);
        if (d.geom == 2) { o.set("kappa_eps", 0.3); o.set("delta_e", 1.4); } else { o.set("kappa_eps", 0.3); o.set("delta_e", 0.2); }
        o.set("problem", 0); o.set("alpha_coeff", 1); o.set("beta_coeff", 1); o.set("DirBC_Interior", c % 2);
        o.set("stencilDistributionMethod", d.strat);
        o.set("extrapolation", d.extrap); o.set("FMG", d.fmg); o.set("FMG_iterations", 2); o.set("FMG_cycle", 0);
        o.set("multigridCycle", 0); o.set("preSmoothingSteps", 1); o.set("postSmoothingSteps", 1); o.set("maxLevels", -1);
        o.set("residualNormType", 0); o.set("maxIterations", 150); o.set("absoluteTolerance", 1e-10); o.set("relativeTolerance", 1e-10);
        o.set("maxOpenMPThreads", 1);
        GMGPolar reused;
        o.apply(reused);
        reused.setup();
        std::string hist = "setup,";
        for (int step = 0; step < 3; step++) {
            reused.solve();
            hist += "solve,";
            GMGPolar fresh;
            o.apply(fresh);
            fresh.setup();
            fresh.solve();
            std::string a = result_sig(reused), b = result_sig(fresh);
            printf("REU case=corpus%d step=%d hist=%s extrap=%s fmg=%s same=%d reused=[%s] fresh=[%s] opts=[%s]\n", c, step, hist.c_str(), o.kv["extrapolation"].c_str(), o.kv["FMG"].c_str(),
                   (int)(a == b), a.c_str(), b.c_str(), o.str().c_str());
        }
        c++;
    }
}

// change ONE option through its public setter on a live object (and record it for the fresh reference object): unlike
// Opts::apply, which re-parses the full command line and therefore overwrites every option, this leaves all other option members
// exactly as the earlier setup()/solve() calls left them
static bool set_one(GMGPolar& g, Opts& o, const std::string& key, int v)
{
    o.set(key, v);
    if (key == "divideBy2") g.divideBy2(v);
    else if (key == "nr_exp") g.nr_exp(v);
    else if (key == "maxLevels") g.maxLevels(v);
    else if (key == "extrapolation") g.extrapolation((ExtrapolationType)v);
    else if (key == "FMG") g.FMG(v != 0);
    else if (key == "FMG_iterations") g.FMG_iterations(v);
    else if (key == "FMG_cycle") g.FMG_cycle((MultigridCycleType)v);
    else if (key == "multigridCycle") g.multigridCycle((MultigridCycleType)v);
    else if (key == "preSmoothingSteps") g.preSmoothingSteps(v);
    else if (key == "postSmoothingSteps") g.postSmoothingSteps(v);
    else if (key == "maxIterations") g.maxIterations(v);
    else if (key == "residualNormType") g.residualNormType((ResidualNormType)v);
    else if (key == "DirBC_Interior") g.DirBC_Interior(v != 0);
    else if (key == "stencilDistributionMethod") g.stencilDistributionMethod((StencilDistributionMethod)v);
    else return false;
    return true;
}
static void reuse_compare(const char* tag, int c, int step, const std::string& hist, GMGPolar& reused, const Opts& o)
{
    GMGPolar fresh;
    o.apply(fresh);
    fresh.setup();
    fresh.solve();
    std::string a = result_sig(reused), b = result_sig(fresh);
    Opts oc = o;
    printf("REU case=%s%d step=%d hist=%s extrap=%s fmg=%s same=%d reused=[%s] fresh=[%s] opts=[%s]\n", tag, c, step, hist.c_str(), oc.kv["extrapolation"].c_str(), oc.kv["FMG"].c_str(),
           (int)(a == b), a.c_str(), b.c_str(), o.str().c_str());
}
// the refinement loop of the shipped convergence_order program: options set ONCE, then divideBy2 = 0, 1, 2 with setup() + solve() each
// (also run downwards and with a repeated size), for level caps that the first, smallest grid cannot reach
static void reuse_refinement_loops()
{
    int c = 0;
    for (int extrap : {0, 1, 3})
        for (int fmg : {0, 1})
            for (int cap : {-1, 6}) {
                if (c >= 8 && (extrap == 3) == (fmg == 1)) { c++; continue; } // keep the corpus small: 10 loops
                Rng rng(777 + c);
                Opts o = base_opts(rng, 3);
                o.set("problem", 0); o.set("alpha_coeff", 1); o.set("beta_coeff", c % 2); o.set("geometry", c % 3);
                if (c % 3 == 2) { o.set("kappa_eps", 0.3); o.set("delta_e", 1.4); } else { o.set("kappa_eps", 0.3); o.set("delta_e", 0.2); }
                o.set("extrapolation", extrap); o.set("FMG", fmg); o.set("FMG_iterations", 1); o.set("FMG_cycle", 0);
                o.set("multigridCycle", 0); o.set("preSmoothingSteps", 1); o.set("postSmoothingSteps", 1); o.set("maxLevels", cap);
                o.set("residualNormType", 0); o.set("maxIterations", 40); o.set("absoluteTolerance", 1e-10); o.set("relativeTolerance", 1e-9);
                o.set("maxOpenMPThreads", 1); o.set("divideBy2", 0);
                GMGPolar reused;
                o.apply(reused);
                std::string hist;
                int step = 0;
                for (int k : {0, 1, 2, 1}) {
                    set_one(reused, o, "divideBy2", k);
                    reused.setup();
                    reused.solve();
                    hist += "divideBy2=" + std::to_string(k) + ",setup,solve,";
                    reuse_compare("loop", c, step++, hist, reused, o);
                }
                c++;
            }
}
// histories in which single options are changed through their setters between the calls
static void reuse_delta_histories(Rng& rng, int cases)
{
    struct K { const char* key; std::vector<int> vals; bool needs_setup; };
    const std::vector<K> keys = {
        {"divideBy2", {0, 1}, true}, {"nr_exp", {3, 4}, true}, {"maxLevels", {-1, 2, 3, 6}, true}, {"extrapolation", {0, 1, 2, 3}, true}, {"FMG", {0, 1}, true},
        {"DirBC_Interior", {0, 1}, true}, {"stencilDistributionMethod", {0, 1}, true},
        {"FMG_iterations", {0, 1, 2}, false}, {"FMG_cycle", {0, 1, 2}, false}, {"multigridCycle", {0, 1, 2}, false}, {"preSmoothingSteps", {1, 2}, false},
        {"postSmoothingSteps", {1, 2}, false}, {"maxIterations", {150, 4, 9}, false}, {"residualNormType", {0, 1, 2}, false}};
    for (int c = 0; c < cases; c++) {
        Opts o = random_solve_opts(rng, 3);
        o.set("divideBy2", 0);
        o.set("cacheDensityProfileCoefficients", 1); o.set("cacheDomainGeometry", 1); // the strategy is switched between give and take below
        if (o.kv["absoluteTolerance"] == "-1" && o.kv["relativeTolerance"] == "-1") o.set("relativeTolerance", 1e-8);
        o.set("maxOpenMPThreads", 1);
        GMGPolar reused;
        o.apply(reused);
        reused.setup();
        reused.solve();
        std::string hist = "setup,solve,";
        reuse_compare("delta", c, 0, hist, reused, o);
        int len = rng.range(2, 4);
        for (int step = 1; step <= len; step++) {
            bool need = false;
            int nchg = rng.range(1, 2);
            for (int q = 0; q < nchg; q++) {
                const K& k = rng.pick(keys);
                int v = rng.pick(k.vals);
                set_one(reused, o, k.key, v);
                need = need || k.needs_setup;
                hist += std::string(k.key) + "=" + std::to_string(v) + ",";
            }
            if (need || rng.coin(0.4)) { reused.setup(); hist += "setup,"; }
            reused.solve();
            hist += "solve,";
            reuse_compare("delta", c, step, hist, reused, o);
        }
    }
}

static int mode_reuse(int cases)
{
    Rng rng(seed_from_env());
    reuse_corpus();
    reuse_refinement_loops();
    reuse_delta_histories(rng, std::max(4, cases / 2));
    for (int c = 0; c < cases; c++) {
        int len = rng.range(2, 4);
        GMGPolar reused;
        std::string hist;
        Opts o;
        bool have_setup = false;
        for (int step = 0; step < len; step++) {
            bool resetup = !have_setup || rng.coin(0.6);
            if (resetup) {
                o = random_solve_opts(rng, rng.coin(0.7) ? 4 : 5);
                o.set("maxIterations", rng.pick(std::vector<int>{150, 4}));
                if (o.kv["absoluteTolerance"] == "-1" && o.kv["relativeTolerance"] == "-1") o.set("relativeTolerance", 1e-8);
                o.set("maxOpenMPThreads", 1);
                o.apply(reused);
                reused.setup();
                have_setup = true;
                hist += "setup,";
            }
            reused.solve();
            hist += "solve,";
            // fresh object with the same options
            GMGPolar fresh;
            o.apply(fresh);
            fresh.setup();
            fresh.solve();
            std::string a = result_sig(reused), b = result_sig(fresh);
            printf("REU case=%d step=%d hist=%s extrap=%s fmg=%s same=%d reused=[%s] fresh=[%s] opts=[%s]\n", c, step, hist.c_str(), o.kv["extrapolation"].c_str(), o.kv["FMG"].c_str(), (int)(a == b),
                   a.c_str(), b.c_str(), o.str().c_str());
        }
    }
    printf("end\n");
    return 0;
}

// ---------------------------------------------------------------------------------------------- levels (C18)
// chooseNumberOfLevels depends on (nr, ntheta, maxLevels) only: it is called on real PolarGrids for EVERY nr up to max_nr, a list of
// angular sizes (powers of two and not) and level caps — not only for the sizes the grid generator produces
static int mode_levels(int max_nr)
{
    GMGPolar g;
    GMGPolarVerif v(g);
    for (int nr = 3; nr <= max_nr; nr++)
        for (int nt : {4, 6, 8, 12, 16, 20, 24, 32, 48, 64, 128})
            for (int ml : {-1, 1, 2, 3, 4, 7}) {
                std::vector<double> radii(nr), angles(nt + 1);
                for (int i = 0; i < nr; i++) radii[i] = 0.1 + 1.2 * i / (nr - 1);
                for (int j = 0; j <= nt; j++) angles[j] = 2 * M_PI * j / nt;
                radii[nr - 1] = 1.3; angles[nt] = 2 * M_PI;
                PolarGrid grid(radii, angles);
                std::string out;
                try { out = std::to_string(v.chooseLevels(grid, ml)); }
                catch (const std::exception& e) { out = "throw"; }
                printf("LEV nr=%d nt=%d max=%d out=%s\n", nr, nt, ml, out.c_str());
            }
    printf("end\n");
    return 0;
}

// ---------------------------------------------------------------------------------------------- rhs (C02)
// the level right-hand sides setup() builds (build_rhs_f, injection, discretize_rhs_f) with the data they are built from
static int mode_rhs(int cases)
{
    Rng rng(seed_from_env());
    for (int c = 0; c < cases; c++) {
        Opts o = base_opts(rng, rng.coin(0.7) ? 4 : 5);
        o.set("FMG", (c / 4) % 2);
        o.set("extrapolation", c % 4); // every (mode, FMG) pair within 8 cases: the number of levels that get a right-hand side depends on both
        o.set("cacheDomainGeometry", o.kv["stencilDistributionMethod"] == "0" ? 1 : rng.range(0, 1));
        o.set("cacheDensityProfileCoefficients", o.kv["stencilDistributionMethod"] == "0" ? 1 : rng.range(0, 1));
        o.set("anisotropic_factor", rng.pick(std::vector<int>{0, 0, 1, 2}));
        GMGPolar g;
        o.apply(g);
        g.setup();
        GMGPolarVerif v(g);
        int with_rhs = atoi(o.kv["FMG"].c_str()) ? v.levels() : (o.kv["extrapolation"] == "0" ? 1 : 2);
        for (int l = 0; l < with_rhs; l++) {
            const PolarGrid& gr = v.level(l).grid();
            int nr = gr.nr(), nt = gr.ntheta();
            std::vector<double> J((size_t)nr * nt * 4), al(nr), be(nr), src((size_t)nr * nt), bdi((size_t)nr * nt), bdo((size_t)nr * nt), rhs((size_t)nr * nt);
            for (int i = 0; i < nr; i++) {
                double r = gr.radius(i);
                al[i] = v.coef().alpha(r); be[i] = v.coef().beta(r);
                for (int j = 0; j < nt; j++) {
                    double th = gr.theta(j), sn = sin(th), cs = cos(th);
                    size_t q = (size_t)i * nt + j;
                    J[4 * q] = v.geo().dFx_dr(r, th, sn, cs); J[4 * q + 1] = v.geo().dFy_dr(r, th, sn, cs); J[4 * q + 2] = v.geo().dFx_dt(r, th, sn, cs); J[4 * q + 3] = v.geo().dFy_dt(r, th, sn, cs);
                    src[q] = v.source().rhs_f(r, th, sn, cs); bdi[q] = v.boundary().u_D_Interior(r, th, sn, cs); bdo[q] = v.boundary().u_D(r, th, sn, cs);
                    rhs[q] = v.level(l).rhs()[gr.index(i, j)];
                }
            }
            printf("LV nr=%d nt=%d nc=%d bc=%d geo=%s coef=%s radii=%s angles=%s J=%s alpha=%s beta=%s\n", nr, nt, gr.numberSmootherCircles(), (int)g.DirBC_Interior(), o.kv["geometry"].c_str(),
                   o.kv["alpha_coeff"].c_str(), hexvec(gr.radii()).c_str(), hexvec(gr.angles()).c_str(), hexvec(J).c_str(), hexvec(al).c_str(), hexvec(be).c_str());
            printf("RHS lvl=%d cachegeo=%s src=%s bdin=%s bdout=%s rhs=%s\n", l, o.kv["cacheDomainGeometry"].c_str(), hexvec(src).c_str(), hexvec(bdi).c_str(), hexvec(bdo).c_str(), hexvec(rhs).c_str());
        }
    }
    printf("end\n");
    return 0;
}

// ---------------------------------------------------------------------------------------------- order (C02)
// discretisation error on three successive uniform refinements, without and with implicit extrapolation
static int mode_order(int cases, int base_exp)
{
    Rng rng(seed_from_env());
    for (int c = 0; c < cases; c++) {
        int geometry = rng.range(0, 2), problem = rng.range(0, 2), alpha = rng.range(0, 3), beta = rng.range(0, 1), dirbc = rng.range(0, 1), strat = rng.range(0, 1);
        // strategy and cache flags are covered deterministically (give without the geometry cache on a non-circular mapping in cases 1, 5, …)
        strat = c % 2;
        if (c % 4 == 1) geometry = 1 + (c / 4) % 2;
        if (c == 0) { geometry = 2; problem = 1; alpha = 0; beta = 0; } // probe of known finding F9
        else if (geometry == 2 && alpha == 0) alpha = rng.range(1, 3);    // … and only there: a configuration of that class would mask any other defect
        // with a Dirichlet inner boundary the inner radius is varied too: at R0 = 1e-5 the interior boundary data hardly matter
        const double R0 = dirbc ? rng.pick(std::vector<double>{1e-5, 0.05, 0.1}) : 1e-5;
        for (int extrap = 0; extrap < 2; extrap++) {
            std::string e2, einf;
            for (int div = 0; div < 3; div++) {
                Opts o;
                o.set("verbose", 0); o.set("nr_exp", base_exp); o.set("ntheta_exp", -1); o.set("divideBy2", div); o.set("geometry", geometry);
                o.set("kappa_eps", 0.3); o.set("delta_e", geometry == 2 ? 1.4 : 0.2); o.set("problem", problem); o.set("alpha_coeff", alpha); o.set("beta_coeff", beta);
                o.set("alpha_jump", 0.7081 * 1.3); o.set("DirBC_Interior", dirbc); o.set("R0", R0); o.set("stencilDistributionMethod", strat);
                // the extrapolated variant cycles through the three extrapolation modes and both FMG settings
                const int mode = extrap == 0 ? 0 : 1 + (c % 3), fmg = extrap == 0 ? 0 : (c / 3) % 2;
                // the give strategy also runs without the caches (the uncached branches of build_rhs_f / the operators evaluate the
                // geometry and the coefficients themselves): derived from the case number, so the random stream stays as calibrated
                const int cg = strat == 1 ? (c / 2) % 2 : 1, cc = strat == 1 ? (c / 4) % 2 : 1;
                o.set("cacheDensityProfileCoefficients", cc); o.set("cacheDomainGeometry", cg); o.set("maxOpenMPThreads", 4); o.set("extrapolation", mode);
                o.set("FMG", fmg); o.set("FMG_iterations", 2); o.set("FMG_cycle", 0); o.set("multigridCycle", 0); o.set("preSmoothingSteps", 1); o.set("postSmoothingSteps", 1); o.set("maxIterations", 150);
                // the discretisation error does not depend on the depth of the hierarchy either: every fourth case caps it at two levels
                // (the coarse-solve branch of the cycles is then taken on level 1)
                o.set("absoluteTolerance", 1e-13); o.set("relativeTolerance", 1e-12); o.set("residualNormType", 0); o.set("maxLevels", c % 4 == 3 ? 2 : -1);
                // the discretisation error does not depend on the cycle: a W(2,2) cycle keeps the annulus-like cases away from the
                // diverging V(1,1) configuration class of known finding F10
                if (R0 > 1e-3) { o.set("multigridCycle", 1); o.set("preSmoothingSteps", 2); o.set("postSmoothingSteps", 2); }
                GMGPolar g;
                o.apply(g);
                g.setup();
                g.solve();
                auto a = g.exactErrorWeightedEuclidean(), b = g.exactErrorInfinity();
                e2 += (div ? "," : "") + hex(a ? *a : -1.0);
                einf += (div ? "," : "") + hex(b ? *b : -1.0);
            }
            printf("ORD geometry=%d problem=%d alpha=%d beta=%d dirbc=%d R0=%g strat=%d cachegeo=%d cachecoef=%d extrap=%d mode=%d fmg=%d base_exp=%d e2=%s einf=%s\n", geometry, problem, alpha, beta, dirbc, R0, strat,
                   strat == 1 ? (c / 2) % 2 : 1, strat == 1 ? (c / 4) % 2 : 1, extrap,
                   extrap == 0 ? 0 : 1 + (c % 3), extrap == 0 ? 0 : (c / 3) % 2, base_exp, e2.c_str(), einf.c_str());
        }
    }
    printf("end\n");
    return 0;
}

// ---------------------------------------------------------------------------------------------- options (C20)
#include <sys/wait.h>
#include <unistd.h>
#include <fcntl.h>
static void run_options_child(const Opts& o)
{
    // everything in a child process: an abort, a sanitizer report, std::exit or a crash is an observable outcome
    fflush(stdout);
    int fds[2];
    if (pipe(fds) != 0) return;
    pid_t pid = fork();
    if (pid == 0) {
        dup2(fds[1], 1);
        close(fds[0]);
        int devnull = open("/dev/null", O_WRONLY);
        dup2(devnull, 2);
        std::string stage = "params";
        // stage markers go through the pipe before each stage, so that the parent knows where a process exit happened:
        // the command-line library's usage exit (status 1) is a clean rejection only while the options are parsed
        auto mark = [&](const char* s) { stage = s; printf("STAGE %s\n", s); fflush(stdout); };
        try {
            GMGPolar g;
            mark("params");
            o.apply(g);
            mark("setup");
            g.setup();
            mark("solve");
            g.solve();
            bool finite = true;
            for (int i = 0; i < g.solution().size(); i++) if (!std::isfinite(g.solution()[i])) finite = false;
            GMGPolarVerif v(g);
            double rho = g.meanResidualReductionFactor();
            printf("RUN levels=%d nr=%d nt=%d it=%d rho=%s rho_defined=%d finite=%d\n", v.levels(), g.grid().nr(), g.grid().ntheta(), g.numberOfIterations(), hex(rho).c_str(),
                   (int)(std::isfinite(rho) && rho >= 0.0), (int)finite);
        }
        catch (const std::exception& e) {
            std::string w = e.what();
            for (auto& ch : w) if (ch == '\n' || ch == ' ') ch = '_';
            printf("REJECTED stage=%s what=%s\n", stage.c_str(), w.substr(0, 80).c_str());
        }
        fflush(stdout);
        _exit(0);
    }
    close(fds[1]);
    std::string out;
    char buf[4096];
    ssize_t n;
    while ((n = read(fds[0], buf, sizeof buf)) > 0) out.append(buf, n);
    close(fds[0]);
    int st = 0;
    waitpid(pid, &st, 0);
    // keep only the harness' own line (the solver prints unconditional messages)
    std::string last, stage_seen = "none";
    size_t pos = 0;
    while (pos < out.size()) {
        size_t e = out.find('\n', pos); if (e == std::string::npos) e = out.size();
        std::string l = out.substr(pos, e - pos);
        if (l.rfind("RUN ", 0) == 0 || l.rfind("REJECTED ", 0) == 0) last = l;
        if (l.rfind("STAGE ", 0) == 0) stage_seen = l.substr(6);
        pos = e + 1;
    }
    if (WIFEXITED(st) && WEXITSTATUS(st) == 0 && !last.empty()) printf("%s\n", last.c_str());
    else printf("ABORT status=%d signal=%d stage=%s\n", WIFEXITED(st) ? WEXITSTATUS(st) : -1, WIFSIGNALED(st) ? WTERMSIG(st) : 0, stage_seen.c_str());
    fflush(stdout);
}

static int mode_options(int cases)
{
    Rng rng(seed_from_env());
    for (int c = 0; c < cases; c++) {
        Opts o;
        auto pickI = [&](std::vector<int> v) { return rng.pick(v); };
        o.set("verbose", 0);
        o.set("nr_exp", pickI({2, 3, 3, 4, 4, 5}));
        o.set("ntheta_exp", pickI({-1, -1, 2, 3, 4, 5}));
        o.set("anisotropic_factor", pickI({0, 0, 0, 1, 2, 3, 5}));
        o.set("divideBy2", pickI({0, 0, 1}));
        o.set("R0", rng.pick(std::vector<double>{1e-5, 1e-2, 0.1, 0.0, 1.5}));
        o.set("Rmax", 1.3);
        o.set("geometry", pickI({0, 1, 2, 3, 4, -1}));
        o.set("kappa_eps", 0.3);
        o.set("delta_e", 0.2);
        if (o.kv["geometry"] == "2") o.set("delta_e", 1.4);
        o.set("problem", pickI({0, 1, 2, 3, 4}));
        o.set("alpha_coeff", pickI({0, 1, 2, 3, 4}));
        o.set("beta_coeff", pickI({0, 1, 2}));
        o.set("alpha_jump", rng.pick(std::vector<double>{0.0, 0.66, 0.92053, 1.3, 2.0}));
        o.set("DirBC_Interior", rng.range(0, 1));
        o.set("extrapolation", pickI({0, 1, 2, 3, 4}));
        o.set("multigridCycle", pickI({0, 1, 2, 3}));
        o.set("FMG", rng.range(0, 1));
        o.set("FMG_iterations", pickI({0, 1, 2}));
        o.set("FMG_cycle", pickI({0, 1, 2, 5}));
        o.set("preSmoothingSteps", pickI({0, 1, 2}));
        o.set("postSmoothingSteps", pickI({0, 1, 2}));
        o.set("maxLevels", pickI({-1, -1, 2, 3, 1, 0}));
        o.set("residualNormType", pickI({0, 1, 2, 3}));
        o.set("maxIterations", pickI({0, 1, 3, 20}));
        o.set("absoluteTolerance", rng.pick(std::vector<double>{1e-8, -1.0}));
        o.set("relativeTolerance", rng.pick(std::vector<double>{1e-8, -1.0}));
        o.set("stencilDistributionMethod", pickI({0, 1, 2}));
        o.set("cacheDensityProfileCoefficients", rng.range(0, 1));
        o.set("cacheDomainGeometry", rng.range(0, 1));
        o.set("maxOpenMPThreads", pickI({1, 2, 4}));
        o.set("threadReductionFactor", rng.pick(std::vector<double>{1.0, 0.5}));
        // 60 % structurally valid tuples (so that runs dominate), 40 % with at most one invalid field plus free numeric options
        auto clampI = [&](const char* k, int hi) { int v = atoi(o.kv[k].c_str()); if (v < 0 || v > hi) o.set(k, rng.range(0, hi)); };
        bool mostly_valid = rng.coin(0.6);
        int keep = mostly_valid ? -1 : rng.range(0, 8); // index of the one field that may stay invalid
        const char* enums[] = {"geometry", "problem", "alpha_coeff", "beta_coeff", "extrapolation", "multigridCycle", "FMG_cycle", "residualNormType", "stencilDistributionMethod"};
        const int his[] = {3, 3, 3, 1, 3, 2, 2, 2, 1};
        for (int q = 0; q < 9; q++) if (q != keep) clampI(enums[q], his[q]);
        if (mostly_valid) {
            if (o.kv["geometry"] == "3" && atoi(o.kv["problem"].c_str()) < 2) o.set("problem", 2);
            if (o.kv["stencilDistributionMethod"] == "0") { o.set("cacheDensityProfileCoefficients", 1); o.set("cacheDomainGeometry", 1); }
            o.set("R0", rng.pick(std::vector<double>{1e-5, 1e-2, 0.1}));
            o.set("alpha_jump", rng.pick(std::vector<double>{0.66, 0.92053}));
            o.set("nr_exp", pickI({3, 4, 4, 5}));
            if (atoi(o.kv["anisotropic_factor"].c_str()) >= atoi(o.kv["nr_exp"].c_str())) o.set("anisotropic_factor", 1);
            o.set("maxLevels", pickI({-1, -1, -1, 2, 2, 3, 3, 1, 0})); // caps 1 and 0 on otherwise valid tuples: must be rejected by setup()
            if (o.kv["ntheta_exp"] == "2") o.set("ntheta_exp", 3);
        }
        printf("OPT R0=%s Rmax=%s alpha_jump=%s opts=[%s]\n", hex(atof(o.kv["R0"].c_str())).c_str(), hex(atof(o.kv["Rmax"].c_str())).c_str(), hex(atof(o.kv["alpha_jump"].c_str())).c_str(), o.str().c_str());
        run_options_child(o);
    }
    printf("end\n");
    return 0;
}

// ---------------------------------------------------------------------------------------------- setup
// what setup() provides (levels, threads per level, operator objects per level, built right-hand sides, smoother switch) and the
// trace of a following solve(): the driver checks the decision table of GMGModel/Setup.lean and that the real solve touches only
// what the real setup provided
static int mode_setup(int cases)
{
    Rng rng(seed_from_env());
    for (int c = 0; c < cases; c++) {
        Opts o = random_solve_opts(rng, rng.pick(std::vector<int>{3, 4, 4, 5}));
        o.set("maxLevels", rng.pick(std::vector<int>{-1, -1, 2, 3, 4, 6}));
        int T = rng.pick(std::vector<int>{1, 2, 4, 7});
        double fac = rng.pick(std::vector<double>{1.0, 0.5, 0.7, 0.3});
        o.set("maxOpenMPThreads", T);
        o.set("threadReductionFactor", fac);
        o.set("maxIterations", 2);
        if (o.kv["absoluteTolerance"] == "-1" && o.kv["relativeTolerance"] == "-1") o.set("relativeTolerance", 1e-8);
        GMGPolar g;
        o.apply(g);
        g.setup();
        GMGPolarVerif v(g);
        int L = v.levels();
        std::string thr, ops, built;
        for (int l = 0; l < L; l++) {
            Level& lv = v.level(l);
            int n = lv.grid().numberOfNodes();
            auto has = [&](auto&& call) { try { call(); return 1; } catch (const std::runtime_error&) { return 0; } };
            Vector<double> x(n), f(n), t(n);
            for (int i = 0; i < n; i++) { x[i] = 0.0; f[i] = 0.0; t[i] = 0.0; }
            int sm = has([&] { lv.smoothing(x, f, t); });
            int ex = has([&] { lv.extrapolatedSmoothing(x, f, t); });
            int ds = has([&] { lv.directSolveInPlace(x); });
            int rs = has([&] { lv.computeResidual(t, f, x); });
            bool nz = false;
            for (int i = 0; i < (int)lv.rhs().size(); i++) if (lv.rhs()[i] != 0.0) nz = true; // levels without a right-hand side have an empty vector
            if (l) { thr += ','; ops += ','; built += ','; }
            thr += std::to_string(v.threads()[l]);
            ops += std::to_string(sm) + std::to_string(ex) + std::to_string(ds) + std::to_string(rs);
            built += nz ? '1' : '0';
        }
        int fgs0 = (int)v.fgs();
        trace_on();
        g.solve();
        trace_off();
        printf("SETUP case=%d levels=%d extrap=%s fmg=%s maxThreads=%d factor=%s threads=%s ops=%s built=%s fgs=%d nr=%d nt=%d opts=[%s] trace=%s\n", c, L, o.kv["extrapolation"].c_str(), o.kv["FMG"].c_str(), T,
               hex(fac).c_str(), thr.c_str(), ops.c_str(), built.c_str(), fgs0, g.grid().nr(), g.grid().ntheta(), o.str().c_str(), render_trace(v).c_str());
    }
    printf("end\n");
    return 0;
}

// ---------------------------------------------------------------------------------------------- operator symmetry inside a solver object
// C05 on the operators a GMGPolar object actually holds after setup() — also after histories in which the boundary mode, the strategy
// or the size was changed through the setters and setup() was called again: on the unknowns that are non-Dirichlet in the CONFIGURED
// mode, <A x, y> = <x, A y> and <A x, x> > 0 on every level (A x := -(residual with zero right-hand side))
static int mode_opsym(int cases)
{
    Rng rng(seed_from_env());
    for (int c = 0; c < cases; c++) {
        Opts o = random_solve_opts(rng, rng.pick(std::vector<int>{3, 4}));
        o.set("cacheDensityProfileCoefficients", 1); o.set("cacheDomainGeometry", 1); o.set("divideBy2", 0);
        GMGPolar g;
        o.apply(g);
        g.setup();
        std::string hist = "setup,";
        int steps = rng.range(0, 2);
        for (int q = 0; q < steps; q++) {
            const char* key = rng.pick(std::vector<const char*>{"DirBC_Interior", "DirBC_Interior", "stencilDistributionMethod", "nr_exp", "extrapolation"});
            int v = std::string(key) == "nr_exp" ? rng.range(3, 4) : std::string(key) == "extrapolation" ? rng.range(0, 3) : rng.range(0, 1);
            set_one(g, o, key, v);
            g.setup();
            hist += std::string(key) + "=" + std::to_string(v) + ",setup,";
        }
        GMGPolarVerif v(g);
        bool bc = g.DirBC_Interior();
        for (int l = 0; l < v.levels(); l++) {
            Level& lv = v.level(l);
            const PolarGrid& gr = lv.grid();
            int n = gr.numberOfNodes();
            Vector<double> x(n), y(n), z(n), ax(n), ay(n);
            for (int i = 0; i < n; i++) { x[i] = rng.uniform(-1, 1); y[i] = rng.uniform(-1, 1); z[i] = 0.0; }
            for (int j = 0; j < gr.ntheta(); j++) {
                x[gr.index(gr.nr() - 1, j)] = 0.0; y[gr.index(gr.nr() - 1, j)] = 0.0;
                if (bc) { x[gr.index(0, j)] = 0.0; y[gr.index(0, j)] = 0.0; }
            }
            lv.computeResidual(ax, z, x);
            lv.computeResidual(ay, z, y);
            double axy = 0, xay = 0, axx = 0, scale = 0;
            for (int i = 0; i < n; i++) { axy += -ax[i] * y[i]; xay += -ay[i] * x[i]; axx += -ax[i] * x[i]; scale += std::abs(ax[i] * y[i]) + std::abs(ay[i] * x[i]); }
            printf("ORC case=%d level=%d of=%d operator_symmetry_defect=%s energy=%s scale=%s bc=%d hist=%s opts=[%s]\n", c, l, v.levels(), hex(std::abs(axy - xay)).c_str(), hex(axx).c_str(), hex(scale).c_str(), (int)bc,
                   hist.c_str(), o.str().c_str());
        }
    }
    printf("end\n");
    return 0;
}

// ---------------------------------------------------------------------------------------------- the whole cycle against the concrete model
// one private cycle of a real solver object on small hierarchies, with everything the Lean model GMGModel/Concrete.lean needs to
// execute the SAME cycle from the code-level models: per level the grid, the Jacobian / coefficient samples and the level's
// right-hand side; the start iterate; the result
static void emit_level_of(const char* tag, int lvl, const DomainGeometry& geo, const DensityProfileCoefficients& coef, const PolarGrid& g, bool dirbc, const Vector<double>& rhs)
{
    int nr = g.nr(), nt = g.ntheta();
    std::vector<double> J((size_t)nr * nt * 4), al(nr), be(nr), f((size_t)nr * nt);
    for (int i = 0; i < nr; i++) {
        double r = g.radius(i);
        al[i] = coef.alpha(r);
        be[i] = coef.beta(r);
        for (int j = 0; j < nt; j++) {
            double th = g.theta(j), sn = sin(th), cs = cos(th);
            size_t b = ((size_t)i * nt + j) * 4;
            J[b] = geo.dFx_dr(r, th, sn, cs); J[b + 1] = geo.dFy_dr(r, th, sn, cs); J[b + 2] = geo.dFx_dt(r, th, sn, cs); J[b + 3] = geo.dFy_dt(r, th, sn, cs);
            f[(size_t)i * nt + j] = rhs.size() > 0 ? rhs[g.index(i, j)] : 0.0;
        }
    }
    printf("%s lvl=%d nr=%d nt=%d nc=%d bc=%d geo=- coef=- radii=%s angles=%s J=%s alpha=%s beta=%s rhs=%s\n", tag, lvl, nr, nt, g.numberSmootherCircles(), (int)dirbc, hexvec(g.radii()).c_str(),
           hexvec(g.angles()).c_str(), hexvec(J).c_str(), hexvec(al).c_str(), hexvec(be).c_str(), hexvec(f).c_str());
}
// The operators as the SOLVER reaches them: GMGPolar::setup() -> Level::initialize{Residual,Smoothing,ExtrapolatedSmoothing,DirectSolver}
// -> Level::computeResidual / smoothing / extrapolatedSmoothing / directSolveInPlace.  Same records as h_ops (drivers residual / smooth /
// direct), but every operator object is the one setup() created through the Level wrappers — with the option values the solver object
// holds (strategy, boundary mode, cache flags, thread counts per level) — not one the harness constructed itself.
static int mode_levelops(const std::string& what, int cases)
{
    Rng rng(seed_from_env());
    for (int c = 0; c < cases; c++) {
        int L = rng.range(2, 3);
        Opts o = base_opts(rng, L == 2 ? 3 : 4);
        o.set("ntheta_exp", L == 2 ? 3 : 4);
        const int extrap = what == "smooth" ? rng.range(0, 3) : rng.range(0, 1);
        o.set("maxLevels", L); o.set("extrapolation", extrap); o.set("FMG", 0);
        o.set("maxOpenMPThreads", rng.pick(std::vector<int>{1, 2, 4}));
        // the give strategy runs with every combination of the two level caches, in turn (take requires both)
        if (o.kv["stencilDistributionMethod"] == "1") { o.set("cacheDensityProfileCoefficients", c & 1); o.set("cacheDomainGeometry", (c >> 1) & 1); }
        GMGPolar g;
        o.apply(g);
        g.setup();
        GMGPolarVerif v(g);
        if (v.levels() != L) { printf("SKIP levels=%d wanted=%d\n", v.levels(), L); continue; }
        const char* strat = o.kv["stencilDistributionMethod"] == "1" ? "give" : "take";
        const int threads = atoi(o.kv["maxOpenMPThreads"].c_str());
        std::unique_ptr<GMGPolar> twin;
        if (what == "residual") {
            Opts o2 = o;
            o2.set("stencilDistributionMethod", o.kv["stencilDistributionMethod"] == "1" ? 0 : 1);
            o2.set("cacheDensityProfileCoefficients", 1); o2.set("cacheDomainGeometry", 1);
            twin = std::make_unique<GMGPolar>();
            o2.apply(*twin);
            twin->setup();
        }
        for (int l = 0; l < L; l++) {
            Level& lv = v.level(l);
            const PolarGrid& gr = lv.grid();
            const int n = gr.numberOfNodes();
            Vector<double> none;
            auto rowmajor = [&](const Vector<double>& w) { std::vector<double> r(n); for (int i = 0; i < gr.nr(); i++) for (int j = 0; j < gr.ntheta(); j++) r[(size_t)i * gr.ntheta() + j] = w[gr.index(i, j)]; return r; };
            std::vector<double> x(n), f(n);
            for (auto& q : x) q = rng.uniform(-1, 1);
            for (auto& q : f) q = rng.uniform(-1, 1);
            Vector<double> xv(n), fv(n), out(n), tmp(n);
            for (int i = 0; i < gr.nr(); i++) for (int j = 0; j < gr.ntheta(); j++) { xv[gr.index(i, j)] = x[(size_t)i * gr.ntheta() + j]; fv[gr.index(i, j)] = f[(size_t)i * gr.ntheta() + j]; }
            if (what == "residual") {
                emit_level_of("LV", l, v.geo(), v.coef(), gr, g.DirBC_Interior(), none);
                lv.computeResidual(out, fv, xv);
                printf("RES lvl=%d strat=%s cache=%s%s threads=%d x=%s f=%s out=%s\n", l, strat, o.kv["cacheDensityProfileCoefficients"].c_str(), o.kv["cacheDomainGeometry"].c_str(), threads,
                       hexvec(x).c_str(), hexvec(f).c_str(), hexvec(rowmajor(out)).c_str());
                // the same inputs through a twin solver object that differs in the strategy only (take needs both caches): the two
                // must agree (oracle on the implementation, no model involved)
                if (twin) {
                    GMGPolarVerif tv(*twin);
                    if (tv.levels() == L) {
                        Vector<double> out2(n);
                        tv.level(l).computeResidual(out2, fv, xv);
                        printf("RES lvl=%d strat=%s cache=11 threads=%d x=%s f=%s out=%s\n", l, strat[0] == 'g' ? "take" : "give", threads, hexvec(x).c_str(), hexvec(f).c_str(), hexvec(rowmajor(out2)).c_str());
                    }
                }
            }
            else if (what == "smooth" && l + 1 < L) {
                // level 0 holds the smoother(s) the extrapolation mode asks for, intermediate levels the standard smoother
                const bool has_std = l > 0 || extrap == 0 || extrap == 2 || extrap == 3, has_ex = l == 0 && (extrap == 1 || extrap == 3);
                for (int ex = 0; ex < 2; ex++) {
                    if ((ex == 0 && !has_std) || (ex == 1 && !has_ex)) continue;
                    if (ex == 1 && gr.nr() % 2 == 0) continue;
                    emit_level_of("LV", l, v.geo(), v.coef(), gr, g.DirBC_Interior(), none);
                    Vector<double> y = xv;
                    fill_garbage(rng, tmp);
                    if (ex) lv.extrapolatedSmoothing(y, fv, tmp); else lv.smoothing(y, fv, tmp);
                    printf("SM ex=%d strat=%s threads=%d x=%s f=%s out=%s\n", ex, strat, threads, hexvec(x).c_str(), hexvec(f).c_str(), hexvec(rowmajor(y)).c_str());
                    // the way a cycle uses it: the SAME smoother object and the SAME work vector again, after the iterate was changed in
                    // between (coarse-grid correction), once with the work vector as the previous sweep left it, once overwritten
                    for (int again = 0; again < 2; again++) {
                        std::vector<double> x2(n);
                        for (auto& q : x2) q = rng.uniform(-1, 1);
                        Vector<double> y2(n);
                        for (int i = 0; i < gr.nr(); i++) for (int j = 0; j < gr.ntheta(); j++) y2[gr.index(i, j)] = x2[(size_t)i * gr.ntheta() + j];
                        if (again == 1) fill_garbage(rng, tmp);
                        emit_level_of("LV", l, v.geo(), v.coef(), gr, g.DirBC_Interior(), none);
                        if (ex) lv.extrapolatedSmoothing(y2, fv, tmp); else lv.smoothing(y2, fv, tmp);
                        printf("SM ex=%d strat=%s threads=%d x=%s f=%s out=%s\n", ex, strat, threads, hexvec(x2).c_str(), hexvec(f).c_str(), hexvec(rowmajor(y2)).c_str());
                    }
                }
            }
            else if (what == "direct" && l + 1 == L) {
                emit_level_of("LV", l, v.geo(), v.coef(), gr, g.DirBC_Interior(), none);
                // every third right-hand side is tiny or huge as a whole (the coarse systems of a converged cycle ARE tiny)
                std::vector<double> fs = f;
                if (c % 3 == 2) { const double sc = rng.pick(std::vector<double>{1e-170, 1e-200, 1e-250, 1e120}); for (auto& q : fs) q *= sc; }
                Vector<double> b(n);
                for (int i = 0; i < gr.nr(); i++) for (int j = 0; j < gr.ntheta(); j++) b[gr.index(i, j)] = fs[(size_t)i * gr.ntheta() + j];
                lv.directSolveInPlace(b);
                printf("DS strat=%s threads=%d b=%s x=%s mat=-\n", strat, threads, hexvec(fs).c_str(), hexvec(rowmajor(b)).c_str());
            }
        }
    }
    printf("end\n");
    return 0;
}

static int mode_concrete(int cases)
{
    Rng rng(seed_from_env());
    for (int c = 0; c < cases; c++) {
        int L = c % 3 == 2 ? 3 : 2;
        int kind = rng.range(0, 2), extrap = rng.range(0, 1), nu1 = rng.range(0, 2), nu2 = rng.range(0, 2);
        bool fgs = extrap && rng.coin(0.3);
        Opts o = base_opts(rng, L == 2 ? 3 : 4);
        o.set("ntheta_exp", L == 2 ? 4 : 4);
        o.set("maxLevels", L); o.set("preSmoothingSteps", nu1); o.set("postSmoothingSteps", nu2); o.set("multigridCycle", kind);
        o.set("extrapolation", extrap ? (fgs ? 2 : 1) : 0); o.set("FMG", 0); o.set("maxOpenMPThreads", 1);
        o.set("cacheDensityProfileCoefficients", 1); o.set("cacheDomainGeometry", 1);
        GMGPolar g;
        o.apply(g);
        g.setup();
        GMGPolarVerif v(g);
        if (v.levels() != L) { printf("SKIP levels=%d wanted=%d\n", v.levels(), L); continue; }
        printf("CON case=%d L=%d kind=%d extrap=%d fgs=%d nu1=%d nu2=%d strat=%s opts=[%s]\n", c, L, kind, extrap, (int)v.fgs(), nu1, nu2, o.kv["stencilDistributionMethod"].c_str(), o.str().c_str());
        for (int l = 0; l < L; l++) emit_level_of("CLV", l, v.geo(), v.coef(), v.level(l).grid(), g.DirBC_Interior(), v.level(l).rhs());
        Level& l0 = v.level(0);
        const PolarGrid& g0 = l0.grid();
        int n = g0.numberOfNodes();
        for (int l = 0; l < L; l++) { fill_garbage(rng, v.level(l).residual()); if (l > 0) { fill_garbage(rng, v.level(l).error_correction()); fill_garbage(rng, v.level(l).solution()); } }
        std::vector<double> x0(n);
        int kindx = rng.range(0, 1);
        for (auto& q : x0) q = kindx ? rng.uniform(-1.0, 1.0) : (double)rng.range(-3, 3);
        for (int i = 0; i < g0.nr(); i++) for (int j = 0; j < g0.ntheta(); j++) l0.solution()[g0.index(i, j)] = x0[(size_t)i * g0.ntheta() + j];
        v.cycle(kind, extrap, 0, l0.solution(), l0.rhs(), l0.residual());
        std::vector<double> out(n);
        for (int i = 0; i < g0.nr(); i++) for (int j = 0; j < g0.ntheta(); j++) out[(size_t)i * g0.ntheta() + j] = l0.solution()[g0.index(i, j)];
        printf("COUT x0=%s out=%s\n", hexvec(x0).c_str(), hexvec(out).c_str());
    }
    // the nested-iteration start-up (initializeSolution() with FMG) executed inside the model: 2 and 3 levels, every FMG cycle type,
    // 0..2 FMG iterations, plain and extrapolated
    for (int c = 0; c < (cases + 2) / 3; c++) {
        int L = c % 2 == 0 ? 2 : 3;
        int fk = rng.range(0, 2), fi = rng.range(0, 2), extrap = rng.range(0, 1), nu1 = rng.range(0, 2), nu2 = rng.range(0, 2);
        bool fgs = extrap && rng.coin(0.3);
        Opts o = base_opts(rng, L == 2 ? 3 : 4);
        o.set("ntheta_exp", 4);
        o.set("maxLevels", L); o.set("preSmoothingSteps", nu1); o.set("postSmoothingSteps", nu2); o.set("multigridCycle", 0);
        o.set("extrapolation", extrap ? (fgs ? 2 : 1) : 0); o.set("FMG", 1); o.set("FMG_cycle", fk); o.set("FMG_iterations", fi); o.set("maxOpenMPThreads", 1);
        o.set("cacheDensityProfileCoefficients", 1); o.set("cacheDomainGeometry", 1);
        GMGPolar g;
        o.apply(g);
        g.setup();
        GMGPolarVerif v(g);
        if (v.levels() != L) { printf("SKIP levels=%d wanted=%d\n", v.levels(), L); continue; }
        printf("CON case=%d L=%d kind=%d extrap=%d fgs=%d nu1=%d nu2=%d strat=%s fmg=1 fmg_it=%d opts=[%s]\n", 1000 + c, L, fk, extrap, (int)v.fgs(), nu1, nu2, o.kv["stencilDistributionMethod"].c_str(), fi, o.str().c_str());
        for (int l = 0; l < L; l++) emit_level_of("CLV", l, v.geo(), v.coef(), v.level(l).grid(), g.DirBC_Interior(), v.level(l).rhs());
        for (int l = 0; l < L; l++) { fill_garbage(rng, v.level(l).residual()); fill_garbage(rng, v.level(l).solution()); if (l > 0) fill_garbage(rng, v.level(l).error_correction()); }
        v.initializeSolution();
        const PolarGrid& g0 = v.level(0).grid();
        std::vector<double> out(g0.numberOfNodes());
        for (int i = 0; i < g0.nr(); i++) for (int j = 0; j < g0.ntheta(); j++) out[(size_t)i * g0.ntheta() + j] = v.level(0).solution()[g0.index(i, j)];
        printf("COUT x0=- out=%s\n", hexvec(out).c_str());
    }
    printf("end\n");
    return 0;
}

int main(int argc, char** argv)
{
    std::string mode = argc > 1 ? argv[1] : "";
    printf("seed %llu\n", (unsigned long long)seed_from_env());
    int a = argc > 2 ? atoi(argv[2]) : 1, b = argc > 3 ? atoi(argv[3]) : 4;
    if (mode == "cycle") return mode_cycle(a);
    if (mode == "fmg") return mode_fmg(a);
    if (mode == "solve") return mode_solve(a, b);
    if (mode == "reuse") return mode_reuse(a);
    if (mode == "options") return mode_options(a);
    if (mode == "levels") return mode_levels(a);
    if (mode == "rhs") return mode_rhs(a);
    if (mode == "order") return mode_order(a, b);
    if (mode == "setup") return mode_setup(a);
    if (mode == "opsym") return mode_opsym(a);
    if (mode == "concrete") return mode_concrete(a);
    if (mode == "levelops") return mode_levelops(argc > 2 ? argv[2] : "residual", argc > 3 ? atoi(argv[3]) : 10);
    fprintf(stderr, "usage: h_solver cycle|fmg|solve|reuse ...\n");
    return 2;
}
