// Shared helpers for the correspondence harnesses.  Everything random derives from one
// splitmix64 state seeded by VERIF_SEED; doubles are transported as hex bit patterns.
#pragma once
#include <cstdint>
#include <cstdio>
#include <cstdlib>
#include <cstring>
#include <string>
#include <vector>
#include <cmath>

struct Rng {
    uint64_t s;
    explicit Rng(uint64_t seed) : s(seed) {}
    uint64_t next() {
        uint64_t z = (s += 0x9e3779b97f4a7c15ULL);
        z = (z ^ (z >> 30)) * 0xbf58476d1ce4e5b9ULL;
        z = (z ^ (z >> 27)) * 0x94d049bb133111ebULL;
        return z ^ (z >> 31);
    }
    // uniform integer in [lo, hi]
    int range(int lo, int hi) { return lo + (int)(next() % (uint64_t)(hi - lo + 1)); }
    double unit() { return (double)(next() >> 11) * (1.0 / 9007199254740992.0); }
    double uniform(double a, double b) { return a + (b - a) * unit(); }
    bool coin(double p = 0.5) { return unit() < p; }
    template <class T> const T& pick(const std::vector<T>& v) { return v[next() % v.size()]; }
};

// VERIF_UNBUFFERED=1: every record reaches the pipe before the next library call runs, so that after a crash of the
// harness the orchestrator can name the operation that was executing (tools/verif.py crash_probe)
struct UnbufferedStdout { UnbufferedStdout() { if (getenv("VERIF_UNBUFFERED")) setvbuf(stdout, nullptr, _IONBF, 0); } };
static UnbufferedStdout verif_unbuffered_stdout_;

inline uint64_t seed_from_env() {
    const char* s = getenv("VERIF_SEED");
    return s ? strtoull(s, nullptr, 10) : 1ULL;
}
inline std::string hex(double d) {
    uint64_t b; memcpy(&b, &d, 8);
    char buf[20]; snprintf(buf, sizeof buf, "%016llx", (unsigned long long)b);
    return buf;
}
template <class V> inline std::string hexvec(const V& v, size_t n) {
    std::string s; s.reserve(n * 17);
    for (size_t i = 0; i < n; i++) { if (i) s += ','; s += hex(v[i]); }
    return s;
}
inline std::string hexvec(const std::vector<double>& v) { return hexvec(v, v.size()); }
inline double from_hex(const std::string& h) {
    uint64_t b = strtoull(h.c_str(), nullptr, 16); double d; memcpy(&d, &b, 8); return d;
}
