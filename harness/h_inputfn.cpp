// C19 harness: every shipped (problem, geometry, alpha, beta) tuple the command line accepts is instantiated through the
// real parser / selectTestCase(), and all its input functions are sampled at points of (R0, Rmax) x [0, 2pi).
//   h_inputfn points <npoints>      TUP / PT records for the Lean driver (non-Culham tuples)
//   h_inputfn culham <npoints>      finite-difference consistency of the Culham mapping and its Jacobian
#include "common.hpp"
#include "GMGPolar/gmgpolar.h"
#include "InputFunctions/DomainGeometry/culhamGeometry.h"

struct GMGPolarVerif {
    GMGPolar& s;
    explicit GMGPolarVerif(GMGPolar& g) : s(g) {}
    const DomainGeometry& geo() { return *s.domain_geometry_; }
    const DensityProfileCoefficients& coef() { return *s.density_profile_coefficients_; }
    const SourceTerm& source() { return *s.source_term_; }
    const BoundaryConditions& boundary() { return *s.boundary_conditions_; }
    const ExactSolution* exact() { return s.exact_solution_.get(); }
};

static int mode_points(int npts)
{
    Rng rng(seed_from_env());
    // two ways of selecting a test case: a fresh solver object per tuple, and ONE long-lived object whose setParameters() is called
    // again and again (parameter studies); the outer radius varies (the constructor's default selection uses 1.3)
    GMGPolar shared;
    int tuple_no = 0;
    for (int p = 0; p < 4; p++) for (int g = 0; g < 3; g++) for (int a = 0; a < 4; a++) for (int b = 0; b < 2; b++) {
        double Rmax = rng.pick(std::vector<double>{1.3, 1.3, 1.0, 2.0, rng.uniform(0.8, 2.5)}), kappa = g == 2 ? rng.uniform(0.1, 0.5) : rng.uniform(0.0, 0.5), delta = g == 2 ? rng.uniform(1.0, 2.0) : rng.uniform(0.0, 0.3);
        double aj = 0.7081 * Rmax;
        const double R0 = rng.pick(std::vector<double>{1e-5, 0.05, 0.1}) * Rmax / 1.3;
        std::vector<std::string> args = {"gmgpolar", "--verbose", "0", "--problem", std::to_string(p), "--geometry", std::to_string(g), "--alpha_coeff", std::to_string(a), "--beta_coeff",
                                         std::to_string(b), "--Rmax", "1.3"};
        char buf[64];
        snprintf(buf, sizeof buf, "%.17g", Rmax); args[12] = buf;
        snprintf(buf, sizeof buf, "%.17g", kappa); args.push_back("--kappa_eps"); args.push_back(buf);
        snprintf(buf, sizeof buf, "%.17g", delta); args.push_back("--delta_e"); args.push_back(buf);
        snprintf(buf, sizeof buf, "%.17g", aj); args.push_back("--alpha_jump"); args.push_back(buf);
        snprintf(buf, sizeof buf, "%.17g", R0); args.push_back("--R0"); args.push_back(buf);
        const double R0v = atof(buf);
        std::vector<char*> argv;
        for (auto& s : args) argv.push_back(const_cast<char*>(s.c_str()));
        GMGPolar fresh_obj;
        bool use_shared = (tuple_no++ % 2) == 1;
        GMGPolar& gm = use_shared ? shared : fresh_obj;
        try { gm.setParameters((int)argv.size(), argv.data()); }
        catch (const std::exception& e) { printf("NOTUP %d %d %d %d\n", p, g, a, b); continue; }
        GMGPolarVerif v(gm);
        printf("TUP %d %d %d %d Rmax=%s kappa=%s delta=%s alpha_jump=%s R0=%s\n", p, g, a, b, hex(Rmax).c_str(), hex(atof(args[14].c_str())).c_str(), hex(atof(args[16].c_str())).c_str(), hex(aj).c_str(), hex(R0v).c_str());
        for (int q = 0; q < npts; q++) {
            double r = q % 5 == 0 ? std::pow(10.0, rng.uniform(-3.0, 0.0)) * Rmax : rng.uniform(0.05, 1.0) * Rmax;
            if (q % 7 == 0) r = Rmax; // boundary data are compared with the exact solution on the boundary
            if (q % 7 == 3) r = R0v;  // … and the interior Dirichlet data with the exact solution on the inner boundary
            double th = rng.uniform(0.0, 2 * M_PI), s = sin(th), c = cos(th);
            double u = v.exact() ? v.exact()->exact_solution(r, th, s, c) : 0.0;
            printf("PT %s %s u=%s al=%s be=%s Fx=%s Fy=%s Jrr=%s Jtr=%s Jrt=%s Jtt=%s f=%s uD=%s uDI=%s\n", hex(r).c_str(), hex(th).c_str(), hex(u).c_str(), hex(v.coef().alpha(r)).c_str(),
                   hex(v.coef().beta(r)).c_str(), hex(v.geo().Fx(r, th, s, c)).c_str(), hex(v.geo().Fy(r, th, s, c)).c_str(), hex(v.geo().dFx_dr(r, th, s, c)).c_str(),
                   hex(v.geo().dFy_dr(r, th, s, c)).c_str(), hex(v.geo().dFx_dt(r, th, s, c)).c_str(), hex(v.geo().dFy_dt(r, th, s, c)).c_str(), hex(v.source().rhs_f(r, th, s, c)).c_str(),
                   hex(v.boundary().u_D(r, th, s, c)).c_str(), hex(v.boundary().u_D_Interior(r, th, s, c)).c_str());
        }
    }
    printf("end\n");
    return 0;
}

// The input functions are FUNCTIONS: what an object returns at a point depends on its own parameters and the point only, not on
// what was evaluated before, nor on other objects of the same class that are alive on the same thread.  Three solver objects with
// the same (problem, geometry, alpha, beta) but different (Rmax, kappa_eps, delta_e, alpha_jump) are evaluated alone (object-major:
// the baseline), then interleaved at the same points (point-major, two orders), then again alone; every value must be bit-identical
// to the baseline.
static std::vector<double> eval_all(GMGPolarVerif& v, double r, double th)
{
    const double s = sin(th), c = cos(th);
    std::vector<double> o;
    o.push_back(v.geo().Fx(r, th, s, c)); o.push_back(v.geo().Fy(r, th, s, c));
    o.push_back(v.geo().dFx_dr(r, th, s, c)); o.push_back(v.geo().dFy_dr(r, th, s, c));
    o.push_back(v.geo().dFx_dt(r, th, s, c)); o.push_back(v.geo().dFy_dt(r, th, s, c));
    o.push_back(v.coef().alpha(r)); o.push_back(v.coef().beta(r));
    o.push_back(v.exact() ? v.exact()->exact_solution(r, th, s, c) : 0.0);
    o.push_back(v.source().rhs_f(r, th, s, c));
    o.push_back(v.boundary().u_D(r, th, s, c)); o.push_back(v.boundary().u_D_Interior(r, th, s, c));
    return o;
}
static int mode_hist(int cases)
{
    Rng rng(seed_from_env());
    static const char* names[] = {"Fx", "Fy", "dFx_dr", "dFy_dr", "dFx_dt", "dFy_dt", "alpha", "beta", "exact_solution", "rhs_f", "u_D", "u_D_Interior"};
    for (int cs = 0; cs < cases; cs++) {
        const int p = rng.range(0, 3), g = rng.range(0, 2), a = rng.range(0, 3), b = rng.range(0, 1);
        const int K = 3;
        std::vector<std::unique_ptr<GMGPolar>> objs;
        std::vector<double> Rm;
        bool ok = true;
        std::string desc;
        for (int k = 0; k < K && ok; k++) {
            const double Rmax = rng.pick(std::vector<double>{1.3, 1.0, 2.0, rng.uniform(0.8, 2.5)});
            const double kappa = g == 2 ? rng.uniform(0.1, 0.5) : rng.uniform(0.0, 0.5), delta = g == 2 ? rng.uniform(1.0, 2.0) : rng.uniform(0.0, 0.3);
            std::vector<std::string> args = {"gmgpolar", "--verbose", "0", "--problem", std::to_string(p), "--geometry", std::to_string(g), "--alpha_coeff", std::to_string(a), "--beta_coeff", std::to_string(b)};
            char buf[64];
            snprintf(buf, sizeof buf, "%.17g", Rmax); args.push_back("--Rmax"); args.push_back(buf);
            snprintf(buf, sizeof buf, "%.17g", kappa); args.push_back("--kappa_eps"); args.push_back(buf);
            snprintf(buf, sizeof buf, "%.17g", delta); args.push_back("--delta_e"); args.push_back(buf);
            snprintf(buf, sizeof buf, "%.17g", 0.7081 * Rmax); args.push_back("--alpha_jump"); args.push_back(buf);
            std::vector<char*> argv;
            for (auto& s : args) argv.push_back(const_cast<char*>(s.c_str()));
            auto o = std::make_unique<GMGPolar>();
            try { o->setParameters((int)argv.size(), argv.data()); } catch (const std::exception&) { ok = false; break; }
            objs.push_back(std::move(o)); Rm.push_back(Rmax);
            snprintf(buf, sizeof buf, "(%.3g,%.3g,%.3g)", Rmax, kappa, delta); desc += buf;
        }
        if (!ok) { printf("NOTUP %d %d %d %d\n", p, g, a, b); continue; }
        // common points in relative coordinates (fraction of each object's Rmax would give different r: the memo-style defects need the
        // SAME r and theta, so absolute radii inside the smallest domain are used)
        const double Rmin = *std::min_element(Rm.begin(), Rm.end());
        const int P = 12;
        std::vector<double> rs(P), ts(P);
        for (int q = 0; q < P; q++) { rs[q] = rng.uniform(0.05, 1.0) * Rmin; ts[q] = rng.uniform(0.0, 2 * M_PI); }
        std::vector<std::vector<std::vector<double>>> base(K, std::vector<std::vector<double>>(P));
        for (int k = 0; k < K; k++) { GMGPolarVerif v(*objs[k]); for (int q = 0; q < P; q++) base[k][q] = eval_all(v, rs[q], ts[q]); }
        int bad = 0; std::string first;
        auto judge = [&](int k, int q, const std::vector<double>& got, const char* order) {
            for (size_t f = 0; f < got.size(); f++) {
                uint64_t x, y; memcpy(&x, &got[f], 8); memcpy(&y, &base[k][q][f], 8);
                if (x != y && !(std::isnan(got[f]) && std::isnan(base[k][q][f]))) {
                    if (!bad) { char buf[256]; snprintf(buf, sizeof buf, "%s_of_object_%d_at_r=%.17g_theta=%.17g_%s:_%.17g_vs_alone_%.17g", names[f], k, rs[q], ts[q], order, got[f], base[k][q][f]); first = buf; }
                    bad++;
                }
            }
        };
        for (int q = 0; q < P; q++) for (int k = 0; k < K; k++) { GMGPolarVerif v(*objs[k]); judge(k, q, eval_all(v, rs[q], ts[q]), "interleaved"); }
        for (int q = P - 1; q >= 0; q--) for (int k = K - 1; k >= 0; k--) { GMGPolarVerif v(*objs[k]); judge(k, q, eval_all(v, rs[q], ts[q]), "interleaved-reversed"); }
        for (int k = 0; k < K; k++) { GMGPolarVerif v(*objs[k]); for (int q = 0; q < P; q++) judge(k, q, eval_all(v, rs[q], ts[q]), "alone-again"); }
        printf("HIST problem=%d geometry=%d alpha=%d beta=%d objects=%s values=%d differing=%d first=%s\n", p, g, a, b, desc.c_str(), 3 * K * P * 12, bad, bad ? first.c_str() : "-");
    }
    printf("end\n");
    return 0;
}

// Translator-independent oracle: -div(alpha grad u) + beta u evaluated by nested 4th-order central differences from the COMPILED exact
// solution, coefficients and Jacobian functions, against the compiled source term — no Lean term involved, so it still speaks when a
// formula leaves the translator's grammar
static int mode_fd(int npts)
{
    Rng rng(seed_from_env());
    for (int p = 0; p < 4; p++) for (int g = 0; g < 3; g++) for (int a = 0; a < 4; a++) for (int b = 0; b < 2; b++) {
        double Rmax = rng.pick(std::vector<double>{1.3, 1.0, 2.0}), kappa = g == 2 ? rng.uniform(0.1, 0.5) : rng.uniform(0.0, 0.5), delta = g == 2 ? rng.uniform(1.0, 2.0) : rng.uniform(0.0, 0.3);
        std::vector<std::string> args = {"gmgpolar", "--verbose", "0", "--problem", std::to_string(p), "--geometry", std::to_string(g), "--alpha_coeff", std::to_string(a), "--beta_coeff", std::to_string(b)};
        char buf[64];
        snprintf(buf, sizeof buf, "%.17g", Rmax); args.push_back("--Rmax"); args.push_back(buf);
        snprintf(buf, sizeof buf, "%.17g", kappa); args.push_back("--kappa_eps"); args.push_back(buf);
        snprintf(buf, sizeof buf, "%.17g", delta); args.push_back("--delta_e"); args.push_back(buf);
        snprintf(buf, sizeof buf, "%.17g", 0.7081 * Rmax); args.push_back("--alpha_jump"); args.push_back(buf);
        std::vector<char*> argv;
        for (auto& s : args) argv.push_back(const_cast<char*>(s.c_str()));
        GMGPolar gm;
        try { gm.setParameters((int)argv.size(), argv.data()); }
        catch (const std::exception& e) { continue; }
        GMGPolarVerif v(gm);
        if (!v.exact()) continue;
        auto u = [&](double r, double t) { return v.exact()->exact_solution(r, t, sin(t), cos(t)); };
        auto d1 = [&](auto f, double x, double h) { return (-f(x + 2 * h) + 8 * f(x + h) - 8 * f(x - h) + f(x - 2 * h)) / (12 * h); };
        const double h = 5e-4;
        auto flux = [&](double r, double t, double& P, double& Q) {
            double s = sin(t), c = cos(t);
            double Jrr = v.geo().dFx_dr(r, t, s, c), Jtr = v.geo().dFy_dr(r, t, s, c), Jrt = v.geo().dFx_dt(r, t, s, c), Jtt = v.geo().dFy_dt(r, t, s, c);
            double det = Jrr * Jtt - Jrt * Jtr;
            double grr = (Jrt * Jrt + Jtt * Jtt) / (det * det), grt = -(Jrr * Jrt + Jtr * Jtt) / (det * det), gtt = (Jrr * Jrr + Jtr * Jtr) / (det * det);
            double ur = d1([&](double x) { return u(x, t); }, r, h), ut = d1([&](double y) { return u(r, y); }, t, h);
            double al = v.coef().alpha(r);
            P = al * det * (grr * ur + grt * ut);
            Q = al * det * (grt * ur + gtt * ut);
        };
        double worst = 0, scale = 0, wr = 0, wt = 0, wf = 0, wl = 0;
        for (int q = 0; q < npts; q++) {
            double r = rng.uniform(0.15, 0.9) * Rmax, t = rng.uniform(0.0, 2 * M_PI), s = sin(t), c = cos(t);
            double dP = d1([&](double x) { double P, Q; flux(x, t, P, Q); return P; }, r, h);
            double dQ = d1([&](double y) { double P, Q; flux(r, y, P, Q); return Q; }, t, h);
            double Jrr = v.geo().dFx_dr(r, t, s, c), Jtr = v.geo().dFy_dr(r, t, s, c), Jrt = v.geo().dFx_dt(r, t, s, c), Jtt = v.geo().dFy_dt(r, t, s, c);
            double det = Jrr * Jtt - Jrt * Jtr;
            double lu = -(dP + dQ) / det + v.coef().beta(r) * u(r, t);
            double f = v.source().rhs_f(r, t, s, c);
            scale = std::max({scale, std::abs(f), std::abs(lu)});
            if (std::abs(f - lu) > worst) { worst = std::abs(f - lu); wr = r; wt = t; wf = f; wl = lu; }
        }
        printf("FD %d %d %d %d Rmax=%s kappa=%s delta=%s worst=%s scale=%s at_r=%s at_theta=%s shipped=%s finite_difference=%s\n", p, g, a, b, hex(Rmax).c_str(), hex(kappa).c_str(), hex(delta).c_str(), hex(worst).c_str(),
               hex(scale).c_str(), hex(wr).c_str(), hex(wt).c_str(), hex(wf).c_str(), hex(wl).c_str());
    }
    printf("end\n");
    return 0;
}

static int mode_culham(int npts)
{
    Rng rng(seed_from_env());
    CulhamGeometry G(1.3);
    double worst_t = 0, worst_r = 0;
    for (int q = 0; q < npts; q++) {
        double r = rng.uniform(0.1, 1.2), th = rng.uniform(0.0, 2 * M_PI), h = 1e-5;
        auto Fx = [&](double rr, double tt) { return G.Fx(rr, tt, sin(tt), cos(tt)); };
        auto Fy = [&](double rr, double tt) { return G.Fy(rr, tt, sin(tt), cos(tt)); };
        double s = sin(th), c = cos(th);
        double dxt = (Fx(r, th + h) - Fx(r, th - h)) / (2 * h), dyt = (Fy(r, th + h) - Fy(r, th - h)) / (2 * h);
        double dxr = (Fx(r + h, th) - Fx(r - h, th)) / (2 * h), dyr = (Fy(r + h, th) - Fy(r - h, th)) / (2 * h);
        worst_t = std::max({worst_t, std::abs(dxt - G.dFx_dt(r, th, s, c)), std::abs(dyt - G.dFy_dt(r, th, s, c))});
        worst_r = std::max({worst_r, std::abs(dxr - G.dFx_dr(r, th, s, c)), std::abs(dyr - G.dFy_dr(r, th, s, c))});
    }
    printf("CULHAM n=%d worst_theta=%s worst_r=%s\n", npts, hex(worst_t).c_str(), hex(worst_r).c_str());
    printf("end\n");
    return 0;
}

int main(int argc, char** argv)
{
    std::string mode = argc > 1 ? argv[1] : "";
    printf("seed %llu\n", (unsigned long long)seed_from_env());
    int n = argc > 2 ? atoi(argv[2]) : 50;
    if (mode == "points") return mode_points(n);
    if (mode == "culham") return mode_culham(n);
    if (mode == "fd") return mode_fd(n);
    if (mode == "hist") return mode_hist(n);
    fprintf(stderr, "usage: h_inputfn points|culham n\n");
    return 2;
}
