// h_vec: header-only harness for Vector<T> and the vector kernels, meant to be compiled with -fsanitize=address,undefined
//   h_vec            the VEC records of vec_mode.hpp (sizes around and above the 10'000-entry parallel switch, thread counts that do
//                    not divide the sizes), then copy / move histories between vectors of different sizes
#include "vec_mode.hpp"

int main()
{
    printf("seed %llu\n", (unsigned long long)seed_from_env());
    Rng rng(seed_from_env());
    // copy construction, copy assignment (equal / smaller / larger target), move, self-assignment at sizes on both sides of the switch
    for (int t : {1, 2, 3, 5, 6, 7, 8}) {
        omp_set_num_threads(t);
        for (int n : {0, 1, 9999, 10000, 10001, 10007, 16640, 33024}) {
            printf("VECBEGIN n=%d threads=%d shape=copy-history\n", n, t);
            Vector<double> a(n);
            for (int i = 0; i < n; i++) a[i] = (double)(i % 97) - 48.0;
            Vector<double> b(a), c(n / 2 + 1), d(2 * n + 3), e;
            c = a; d = a; e = a; a = a;
            Vector<double> f(std::move(b));
            bool ok = c.size() == n && d.size() == n && e.size() == n && f.size() == n;
            for (int i = 0; i < n && ok; i++) ok = c[i] == a[i] && d[i] == a[i] && e[i] == a[i] && f[i] == a[i];
            if (!ok) printf("VECCOPY n=%d threads=%d copies differ from the source\n", n, t);
        }
    }
    return mode_vec();
}
