// Code-level tie of the zebra line smoothers (C06, C07): what the real classes STORE and COMPUTE, piece by piece.
//   ./h_smcode smooth <cases> <max_nr> <max_nt>      SmootherGive / SmootherTake
//   ./h_smcode exsmooth <cases> <max_nr> <max_nt>    ExtrapolatedSmootherGive / ExtrapolatedSmootherTake (record XC, see mode_exsmooth)
// For every random problem (same generator families as h_ops smooth) and strategy x thread count the record carries
//   - the line matrices right after construction (before the first solve factorises them in place): main / sub / corner of every
//     circle and radial SymmetricTridiagonalSolver, and the CSR rows of the innermost circle's matrix in storage order,
//   - for the take strategy: `temp` after applyAscOrthoCircleSection(i) for every circle and applyAscOrthoRadialSection(j) for
//     every radial line, evaluated on the INPUT iterate (no solve in between),
//   - for the give strategy with one thread: the statements of smoothingSequential replayed one by one on a second object: the iterate
//     at the start of each phase (gx), the value of temp every line solve is given (gt), and whether the replay reproduces smoothing() (gseq),
//   - the iterate after one smoothing() sweep.
// gmgdriver smcode compares all of it with GMGModel/SmootherCode.lean and (strategy give) GMGModel/SmootherGiveCode.lean (exact
// rationals with the magnitude allowance; the tridiagonal lines additionally in IEEE double, bit for bit).
// The members are private: access specifiers are switched off for this translation unit only.
#include <algorithm>
#include <array>
#include <cassert>
#include <chrono>
#include <cmath>
#include <cstdint>
#include <cstdio>
#include <cstdlib>
#include <cstring>
#include <fstream>
#include <functional>
#include <iomanip>
#include <iostream>
#include <map>
#include <memory>
#include <mutex>
#include <numeric>
#include <optional>
#include <set>
#include <sstream>
#include <stdexcept>
#include <string>
#include <thread>
#include <unordered_map>
#include <utility>
#include <variant>
#include <vector>
#include <omp.h>
#define private public
#define protected public
#include "problem.hpp"
#include "Smoother/SmootherGive/smootherGive.h"
#include "Smoother/SmootherTake/smootherTake.h"
#include "ExtrapolatedSmoother/ExtrapolatedSmootherGive/extrapolatedSmootherGive.h"
#include "ExtrapolatedSmoother/ExtrapolatedSmootherTake/extrapolatedSmootherTake.h"
#undef private
#undef protected

static int pick_nr(Rng& rng, int max_nr)
{
    std::vector<int> v;
    for (int n = 5; n <= max_nr; n += 2) v.push_back(n);
    return rng.pick(v);
}
static int pick_nt(Rng& rng, int max_nt)
{
    std::vector<int> v;
    for (int n = 4; n <= max_nt; n += 4) v.push_back(n);
    return rng.pick(v);
}

static std::string tri_dump(const SymmetricTridiagonalSolver<double>& T)
{
    std::string s;
    std::vector<double> m(T.rows()), b(T.rows() > 0 ? T.rows() - 1 : 0);
    for (int k = 0; k < T.rows(); k++) m[k] = T.main_diagonal(k);
    for (int k = 0; k + 1 < T.rows(); k++) b[k] = T.sub_diagonal(k);
    s += hexvec(m) + "/" + (b.empty() ? std::string("-") : hexvec(b)) + "/" + (T.is_cyclic() ? hex(T.cyclic_corner_element()) : std::string("-"));
    return s;
}
static std::string csr_rows(const SparseMatrixCSR<double>& A)
{
    std::string s;
    char buf[64];
    for (int r = 0; r < A.rows(); r++)
        for (int k = 0; k < A.row_nz_size(r); k++) {
            snprintf(buf, sizeof buf, "%d:%d:%s", r, A.row_nz_index(r, k), hex(A.row_nz_entry(r, k)).c_str());
            if (!s.empty()) s += ',';
            s += buf;
        }
    return s;
}

template <class S> static void matrices(const S& sm, const PolarGrid& g, std::string& cm, std::string& rm, std::string& inner)
{
    for (int i = 1; i < g.numberSmootherCircles(); i++) { if (i > 1) cm += ';'; cm += tri_dump(sm.circle_tridiagonal_solver_[i]); }
    for (int j = 0; j < g.ntheta(); j++) { if (j) rm += ';'; rm += tri_dump(sm.radial_tridiagonal_solver_[j]); }
    inner = csr_rows(sm.inner_boundary_circle_matrix_);
}

static int mode_smooth(int cases, int max_nr, int max_nt)
{
    Rng rng(seed_from_env());
    for (int c = 0; c < cases; c++) {
        int nr = pick_nr(rng, max_nr), nt = pick_nt(rng, max_nt);
        if (nt % 4 != 0) nt = 8;
        Problem p = make_problem(rng, nr, nt);
        std::optional<double> split = std::nullopt;
        if (rng.coin(0.6)) { int nc = rng.range(2, nr - 3); if (nc >= 2) split = 0.5 * (p.radii[nc - 1] + p.radii[nc]); }
        Chain ch = make_chain(p, 1, true, true, split);
        Level& L = *ch.levels[0];
        const PolarGrid& g = L.grid();
        if (g.numberSmootherCircles() < 2 || g.lengthSmootherRadial() < 3) continue;
        emit_level("LV", p, g, p.dirbc);
        int N = g.numberOfNodes(), nc = g.numberSmootherCircles();
        std::vector<double> x = random_field(rng, N), f = random_field(rng, N);
        for (int strat = 0; strat < 2; strat++)
            for (int threads : {1, 4}) {
                Vector<double> xv = from_rowmajor(g, x), fv = from_rowmajor(g, f), tmp(N);
                std::string cm, rm, inner, tc = "-", tr = "-", gx = "-", gt = "-", gseq = "-";
                omp_set_num_threads(threads);
                if (strat == 0) {
                    SmootherGive sm(g, L.levelCache(), *p.geo, *p.coef, p.dirbc, threads);
                    matrices(sm, g, cm, rm, inner);
                    for (int i = 0; i < N; i++) tmp[i] = rng.uniform(-1e3, 1e3);
                    sm.smoothing(xv, fv, tmp);
                    if (threads == 1) {
                        // the statements of SmootherGive::smoothingSequential, one by one, on a second object (the first solve of a
                        // line factorises its matrix in place): the iterate at the start of each of the four phases (gx) and, for every
                        // node, the value of temp its line solve is given (gt); gseq = the replay ends in the same bits as smoothing()
                        SmootherGive s2(g, L.levelCache(), *p.geo, *p.coef, p.dirbc, threads);
                        Vector<double> x2 = from_rowmajor(g, x), t2(N), pres(N);
                        for (int i = 0; i < N; i++) { t2[i] = 777.0; pres[i] = -777.0; }
                        Vector<double> cs1(g.ntheta()), cs2(g.ntheta()), rs(g.lengthSmootherRadial());
                        auto snapC = [&](int i_r) { for (int j = 0; j < g.ntheta(); j++) pres[g.index(i_r, j)] = t2[g.index(i_r, j)]; };
                        auto snapR = [&](int i_t) { for (int i = nc; i < g.nr(); i++) pres[g.index(i, i_t)] = t2[g.index(i, i_t)]; };
                        t2 = fv;
                        gx = hexvec(to_rowmajor(g, x2));
                        for (int i_r = 0; i_r < nc + 1; i_r++) s2.applyAscOrthoCircleSection(i_r, SmootherColor::Black, x2, fv, t2);
                        for (int i_r = (nc % 2 == 0) ? 1 : 0; i_r < nc; i_r += 2) { snapC(i_r); s2.solveCircleSection(i_r, x2, t2, cs1, cs2); }
                        gx += ";" + hexvec(to_rowmajor(g, x2));
                        for (int i_r = 0; i_r < nc; i_r++) s2.applyAscOrthoCircleSection(i_r, SmootherColor::White, x2, fv, t2);
                        for (int i_r = (nc % 2 == 0) ? 0 : 1; i_r < nc; i_r += 2) { snapC(i_r); s2.solveCircleSection(i_r, x2, t2, cs1, cs2); }
                        gx += ";" + hexvec(to_rowmajor(g, x2));
                        for (int i_t = 0; i_t < g.ntheta(); i_t++) s2.applyAscOrthoRadialSection(i_t, SmootherColor::Black, x2, fv, t2);
                        for (int i_t = 0; i_t < g.ntheta(); i_t += 2) { snapR(i_t); s2.solveRadialSection(i_t, x2, t2, rs); }
                        gx += ";" + hexvec(to_rowmajor(g, x2));
                        for (int i_t = 0; i_t < g.ntheta(); i_t++) s2.applyAscOrthoRadialSection(i_t, SmootherColor::White, x2, fv, t2);
                        for (int i_t = 1; i_t < g.ntheta(); i_t += 2) { snapR(i_t); s2.solveRadialSection(i_t, x2, t2, rs); }
                        gt = hexvec(to_rowmajor(g, pres));
                        bool same = true;
                        for (int i = 0; i < N; i++) { uint64_t a, b; double da = x2[i], db = xv[i]; memcpy(&a, &da, 8); memcpy(&b, &db, 8); if (a != b) same = false; }
                        gseq = same ? "1" : "0";
                    }
                }
                else {
                    SmootherTake sm(g, L.levelCache(), *p.geo, *p.coef, p.dirbc, threads);
                    matrices(sm, g, cm, rm, inner);
                    // temp = rhs - A_sc^ortho x on the input iterate, line by line
                    for (int i = 0; i < N; i++) tmp[i] = rng.uniform(-1e3, 1e3);
                    for (int i = 0; i < nc; i++) sm.applyAscOrthoCircleSection(i, (nc - 1 - i) % 2 == 0 ? SmootherColor::Black : SmootherColor::White, xv, fv, tmp);
                    for (int j = 0; j < g.ntheta(); j++) sm.applyAscOrthoRadialSection(j, j % 2 == 0 ? SmootherColor::Black : SmootherColor::White, xv, fv, tmp);
                    std::vector<double> t = to_rowmajor(g, tmp);
                    tc = hexvec(t);
                    for (int i = 0; i < N; i++) tmp[i] = rng.uniform(-1e3, 1e3);
                    sm.smoothing(xv, fv, tmp);
                }
                printf("SC strat=%s threads=%d x=%s f=%s cm=%s rm=%s inner=%s temp=%s gx=%s gt=%s gseq=%s out=%s\n", strat == 0 ? "give" : "take", threads, hexvec(x).c_str(), hexvec(f).c_str(),
                       cm.c_str(), rm.c_str(), inner.empty() ? "-" : inner.c_str(), tc.c_str(), gx.c_str(), gt.c_str(), gseq.c_str(), hexvec(to_rowmajor(g, xv)).c_str());
            }
    }
    printf("end\n");
    return 0;
}

// ---------------------------------------------------------------------------------------------- extrapolated smoother
// Record XC: the four solver vectors in VECTOR order (index k), so that the driver also checks which line sits at which index
// and the dimension of every element (circle_diagonal_solver_[0] stays default-constructed):
//   ct = circle_tridiagonal_solver_[k]  "main/sub/corner" ; ...      cd = circle_diagonal_solver_[k]  diag ; ...  ("-" = dimension 0)
//   rt = radial_tridiagonal_solver_[k]                                rd = radial_diagonal_solver_[k]
//   inner = CSR rows of inner_boundary_circle_matrix_ in storage order
//   temp (take) = temp after applyAscOrthoCircleSection(i) for every circle and applyAscOrthoRadialSection(j) for every
//   radial line on the INPUT iterate;  temp (give, threads=1) = temp after its initialisation and the four scatter phases of
//   extrapolatedSmoothingSequential on the INPUT iterate (no solve in between);  out = the iterate after one
//   extrapolatedSmoothing() sweep.
static std::string diag_dump(const DiagonalSolver<double>& D)
{
    if (D.rows() == 0) return "-";
    std::vector<double> d(D.rows());
    for (int k = 0; k < D.rows(); k++) d[k] = D.diagonal(k);
    return hexvec(d);
}
template <class S> static void ex_matrices(const S& sm, std::string& ct, std::string& cd, std::string& rt, std::string& rd, std::string& inner)
{
    for (size_t k = 0; k < sm.circle_tridiagonal_solver_.size(); k++) { if (k) ct += ';'; ct += tri_dump(sm.circle_tridiagonal_solver_[k]); }
    for (size_t k = 0; k < sm.circle_diagonal_solver_.size(); k++) { if (k) cd += ';'; cd += diag_dump(sm.circle_diagonal_solver_[k]); }
    for (size_t k = 0; k < sm.radial_tridiagonal_solver_.size(); k++) { if (k) rt += ';'; rt += tri_dump(sm.radial_tridiagonal_solver_[k]); }
    for (size_t k = 0; k < sm.radial_diagonal_solver_.size(); k++) { if (k) rd += ';'; rd += diag_dump(sm.radial_diagonal_solver_[k]); }
    inner = csr_rows(sm.inner_boundary_circle_matrix_);
}

static int mode_exsmooth(int cases, int max_nr, int max_nt)
{
    Rng rng(seed_from_env());
    for (int c = 0; c < cases; c++) {
        int nr = pick_nr(rng, max_nr), nt = pick_nt(rng, max_nt);
        if (nt % 4 != 0) nt = 8;
        if (nr < 7) nr = 7;
        Problem p = make_problem(rng, nr, nt);
        // explicit splits give both parities of the number of circles; keep >= 3 circles and >= 3 radial nodes
        std::optional<double> split = std::nullopt;
        if (rng.coin(0.6)) { int nc = rng.range(3, nr - 3); if (nc >= 3) split = 0.5 * (p.radii[nc - 1] + p.radii[nc]); }
        Chain ch = make_chain(p, 1, true, true, split);
        Level& L = *ch.levels[0];
        const PolarGrid& g = L.grid();
        if (g.numberSmootherCircles() < 3 || g.lengthSmootherRadial() < 3) continue;
        emit_level("LV", p, g, p.dirbc);
        int N = g.numberOfNodes(), nc = g.numberSmootherCircles();
        std::vector<double> x = random_field(rng, N), f = random_field(rng, N);
        for (int strat = 0; strat < 2; strat++)
            for (int threads : {1, 4}) {
                Vector<double> xv = from_rowmajor(g, x), fv = from_rowmajor(g, f), tmp(N);
                std::string ct, cd, rt, rd, inner, tc = "-";
                omp_set_num_threads(threads);
                if (strat == 0) {
                    ExtrapolatedSmootherGive sm(g, L.levelCache(), *p.geo, *p.coef, p.dirbc, threads);
                    ex_matrices(sm, ct, cd, rt, rd, inner);
                    if (threads == 1) {
                        // the scatter kernels on the INPUT iterate: temp initialised as extrapolatedSmoothingSequential does
                        // (fine nodes rhs, coarse nodes x), then Asc-ortho(Black) for i_r = 0..nc, Asc-ortho(White) for i_r = 0..nc-1,
                        // Asc-ortho(Black) and Asc-ortho(White) for every radial line, in the sequential order, no solve in between
                        // (every temp value receives the stores of its own colour phase only)
                        Vector<double> t2(N);
                        for (int i = 0; i < g.nr(); i++)
                            for (int j = 0; j < g.ntheta(); j++) {
                                const int idx = g.index(i, j);
                                t2[idx]       = ((i & 1) || (j & 1)) ? fv[idx] : xv[idx];
                            }
                        for (int i = 0; i < nc + 1; i++) sm.applyAscOrthoCircleSection(i, SmootherColor::Black, xv, fv, t2);
                        for (int i = 0; i < nc; i++) sm.applyAscOrthoCircleSection(i, SmootherColor::White, xv, fv, t2);
                        for (int j = 0; j < g.ntheta(); j++) sm.applyAscOrthoRadialSection(j, SmootherColor::Black, xv, fv, t2);
                        for (int j = 0; j < g.ntheta(); j++) sm.applyAscOrthoRadialSection(j, SmootherColor::White, xv, fv, t2);
                        tc = hexvec(to_rowmajor(g, t2));
                    }
                    for (int i = 0; i < N; i++) tmp[i] = rng.uniform(-1e3, 1e3);
                    sm.extrapolatedSmoothing(xv, fv, tmp);
                }
                else {
                    ExtrapolatedSmootherTake sm(g, L.levelCache(), *p.geo, *p.coef, p.dirbc, threads);
                    ex_matrices(sm, ct, cd, rt, rd, inner);
                    // temp = rhs - A_sc^ortho x on the input iterate, line by line (scratch holds garbage before)
                    for (int i = 0; i < N; i++) tmp[i] = rng.uniform(-1e3, 1e3);
                    for (int i = 0; i < nc; i++) sm.applyAscOrthoCircleSection(i, (nc - 1 - i) % 2 == 0 ? SmootherColor::Black : SmootherColor::White, xv, fv, tmp);
                    for (int j = 0; j < g.ntheta(); j++) sm.applyAscOrthoRadialSection(j, j % 2 == 0 ? SmootherColor::Black : SmootherColor::White, xv, fv, tmp);
                    tc = hexvec(to_rowmajor(g, tmp));
                    for (int i = 0; i < N; i++) tmp[i] = rng.uniform(-1e3, 1e3);
                    sm.extrapolatedSmoothing(xv, fv, tmp);
                }
                auto dash = [](const std::string& s) { return s.empty() ? std::string("-") : s; };
                printf("XC strat=%s threads=%d x=%s f=%s ct=%s cd=%s rt=%s rd=%s inner=%s temp=%s out=%s\n", strat == 0 ? "give" : "take", threads, hexvec(x).c_str(),
                       hexvec(f).c_str(), dash(ct).c_str(), dash(cd).c_str(), dash(rt).c_str(), dash(rd).c_str(), dash(inner).c_str(), tc.c_str(),
                       hexvec(to_rowmajor(g, xv)).c_str());
            }
    }
    printf("end\n");
    return 0;
}

int main(int argc, char** argv)
{
    std::string mode = argc > 1 ? argv[1] : "";
    printf("seed %llu\n", (unsigned long long)seed_from_env());
    int a = argc > 2 ? atoi(argv[2]) : 20, b = argc > 3 ? atoi(argv[3]) : 13, c = argc > 4 ? atoi(argv[4]) : 16;
    if (mode == "smooth") return mode_smooth(a, b, c);
    if (mode == "exsmooth") return mode_exsmooth(a, b, c);
    fprintf(stderr, "usage: h_smcode smooth|exsmooth <cases> <max_nr> <max_nt>\n");
    return 2;
}
