// Footprint probe (C11): which nodes of which shared array does ONE kernel call of a parallel region write / read?
//   ./h_foot <shapes>
// For every kernel of the twelve region classes (residual, smoother, extrapolated smoother; the two direct-solver and four
// smoother-matrix assemblies: there the shared array is the set of matrix rows),
// every line argument and colour that the regions can pass, the real member function is called on random arrays;
//   written(a,p)  iff the call changes a[p] for one of two random backgrounds,
//   read(a,p)     iff perturbing a[p] alone changes some OTHER cell of the output (a cell that is updated in place is
//                 reported under "written" already).
// The Lean driver checks observed ⊆ model footprint (GMGModel/Sched.lean `writes` / `reads`), and re-runs the conflict
// search of the generated schedule on the OBSERVED footprints.
// The kernels are private members: the access specifiers are switched off for this translation unit only (no change to
// object layout or symbol names with GCC); no repository source is touched.
#include <algorithm>
#include <array>
#include <cassert>
#include <chrono>
#include <cmath>
#include <cstdint>
#include <cstdio>
#include <cstdlib>
#include <cstring>
#include <fstream>
#include <functional>
#include <iomanip>
#include <iostream>
#include <map>
#include <memory>
#include <mutex>
#include <numeric>
#include <optional>
#include <set>
#include <sstream>
#include <stdexcept>
#include <string>
#include <thread>
#include <unordered_map>
#include <utility>
#include <variant>
#include <vector>
#include <omp.h>
#define private public
#define protected public
#include "problem.hpp"
#include "Residual/ResidualGive/residualGive.h"
#include "Residual/ResidualTake/residualTake.h"
#include "Smoother/SmootherGive/smootherGive.h"
#include "Smoother/SmootherTake/smootherTake.h"
#include "ExtrapolatedSmoother/ExtrapolatedSmootherGive/extrapolatedSmootherGive.h"
#include "ExtrapolatedSmoother/ExtrapolatedSmootherTake/extrapolatedSmootherTake.h"
#include "DirectSolver/DirectSolverGiveCustomLU/directSolverGiveCustomLU.h"
#include "DirectSolver/DirectSolverTakeCustomLU/directSolverTakeCustomLU.h"
#undef private
#undef protected

struct Arrays {
    Vector<double> out, x, temp, rhs;
    explicit Arrays(int n) : out(n), x(n), temp(n), rhs(n) {}
};
using Kernel = std::function<void(Arrays&)>;

static void fill(Rng& rng, Vector<double>& v) { for (int i = 0; i < (int)v.size(); i++) v[i] = rng.uniform(1.0, 2.0) * (rng.coin() ? 1 : -1); }
static bool same(double a, double b) { return std::memcmp(&a, &b, 8) == 0; }

// tracked arrays: 0 = out, 1 = x, 2 = temp
static Vector<double>& arr(Arrays& A, int a) { return a == 0 ? A.out : a == 1 ? A.x : A.temp; }
static const char* ANAME[3] = {"out", "x", "temp"};

static void probe(Rng& rng, const PolarGrid& g, const char* cls, const char* fn, int arg, const char* colour, const std::vector<int>& tracked, const Kernel& K)
{
    int N = g.numberOfNodes();
    std::array<std::set<int>, 3> W, R;
    Arrays base(N), ref(N);
    for (int rep = 0; rep < 2; rep++) {
        fill(rng, base.out); fill(rng, base.x); fill(rng, base.temp); fill(rng, base.rhs);
        ref = base;
        K(ref);
        for (int a : tracked)
            for (int p = 0; p < N; p++)
                if (!same(arr(ref, a)[p], arr(base, a)[p])) W[a].insert(p);
        if (rep == 1) break; // reads are probed on the first background only
        for (int a : tracked)
            for (int p = 0; p < N; p++) {
                Arrays pert = base;
                arr(pert, a)[p] += 0.37 * (1.0 + std::fabs(arr(pert, a)[p]));
                K(pert);
                bool read = false;
                for (int b : tracked)
                    for (int q = 0; q < N && !read; q++)
                        if (!(b == a && q == p) && !same(arr(pert, b)[q], arr(ref, b)[q])) read = true;
                if (read) R[a].insert(p);
            }
    }
    auto dump = [&](const std::array<std::set<int>, 3>& S) {
        std::string s;
        for (int a : tracked) {
            if (S[a].empty()) continue;
            if (!s.empty()) s += ';';
            s += ANAME[a]; s += ':';
            bool first = true;
            for (int p : S[a]) {
                int i, j; g.multiIndex(p, i, j);
                if (!first) s += ',';
                s += std::to_string(i * g.ntheta() + j);
                first = false;
            }
        }
        return s.empty() ? std::string("-") : s;
    };
    printf("FP cls=%s fn=%s arg=%d col=%s W=%s R=%s\n", cls, fn, arg, colour, dump(W).c_str(), dump(R).c_str());
}

// ---- matrix-assembly kernels: the shared "array" is the set of matrix rows; a row belongs to the node it is the equation of
struct Cell { int r, th; double* p; };
static void probe_cells(Rng& rng, const PolarGrid& g, const char* cls, const char* fn, int arg, std::vector<Cell>& cells, const std::function<void()>& K)
{
    std::set<int> W;
    std::vector<double> before(cells.size());
    for (int rep = 0; rep < 2; rep++) {
        for (size_t c = 0; c < cells.size(); c++) before[c] = *cells[c].p = rng.uniform(1.0, 2.0) * (rng.coin() ? 1 : -1);
        K();
        for (size_t c = 0; c < cells.size(); c++)
            if (!same(*cells[c].p, before[c])) W.insert(cells[c].r * g.ntheta() + cells[c].th);
    }
    std::string s;
    for (int p : W) { if (!s.empty()) s += ','; s += std::to_string(p); }
    printf("FP cls=%s fn=%s arg=%d col=none W=%s R=-\n", cls, fn, arg, s.empty() ? "-" : ("out:" + s).c_str());
}
static void csr_cells(const PolarGrid& g, SparseMatrixCSR<double>& A, bool global, std::vector<Cell>& out)
{
    for (int row = 0; row < A.rows(); row++) {
        int i = 0, j = row;
        if (global) g.multiIndex(row, i, j);
        for (int k = 0; k < A.row_nz_size(row); k++) out.push_back({i, j, &A.row_nz_entry(row, k)});
    }
}
static void tri_cells(SymmetricTridiagonalSolver<double>& T, bool circle, int line, int nc, std::vector<Cell>& out)
{
    auto node = [&](int k) { return circle ? std::pair<int, int>(line, k) : std::pair<int, int>(nc + k, line); };
    for (int k = 0; k < T.rows(); k++) { auto [r, t] = node(k); out.push_back({r, t, &T.main_diagonal(k)}); }
    for (int k = 0; k + 1 < T.rows(); k++) { auto [r, t] = node(k); out.push_back({r, t, &T.sub_diagonal(k)}); }
    if (T.rows() > 0 && T.is_cyclic()) { auto [r, t] = node(0); out.push_back({r, t, &T.cyclic_corner_element()}); }
}
static void diag_cells(DiagonalSolver<double>& D, bool circle, int line, int nc, std::vector<Cell>& out)
{
    for (int k = 0; k < D.rows(); k++) out.push_back(circle ? Cell{line, k, &D.diagonal(k)} : Cell{nc + k, line, &D.diagonal(k)});
}
template <class S> static void probe_asc(Rng& rng, const PolarGrid& g, S& sm, const char* cls)
{
    const int nc = g.numberSmootherCircles(), nt = g.ntheta();
    std::vector<Cell> cells;
    csr_cells(g, sm.inner_boundary_circle_matrix_, false, cells);
    if constexpr (requires { sm.circle_diagonal_solver_; }) {
        for (int i = 1; i < nc; i++) { if (i & 1) tri_cells(sm.circle_tridiagonal_solver_[i / 2], true, i, nc, cells); else diag_cells(sm.circle_diagonal_solver_[i / 2], true, i, nc, cells); }
        for (int j = 0; j < nt; j++) { if (j & 1) tri_cells(sm.radial_tridiagonal_solver_[j / 2], false, j, nc, cells); else diag_cells(sm.radial_diagonal_solver_[j / 2], false, j, nc, cells); }
    } else {
        for (int i = 1; i < nc; i++) tri_cells(sm.circle_tridiagonal_solver_[i], true, i, nc, cells);
        for (int j = 0; j < nt; j++) tri_cells(sm.radial_tridiagonal_solver_[j], false, j, nc, cells);
    }
    for (int i = 0; i < nc; i++) probe_cells(rng, g, cls, "buildAscCircleSection", i, cells, [&] { sm.buildAscCircleSection(i); });
    for (int j = 0; j < nt; j++) probe_cells(rng, g, cls, "buildAscRadialSection", j, cells, [&] { sm.buildAscRadialSection(j); });
}
template <class D> static void probe_direct(Rng& rng, const PolarGrid& g, D& d, const char* cls)
{
    SparseMatrixCSR<double> A = d.solver_matrix_; // same sparsity layout as the one the region fills
    std::vector<Cell> cells;
    csr_cells(g, A, true, cells);
    for (int i = 0; i < g.numberSmootherCircles(); i++) probe_cells(rng, g, cls, "buildSolverMatrixCircleSection", i, cells, [&] { d.buildSolverMatrixCircleSection(i, A); });
    for (int j = 0; j < g.ntheta(); j++) probe_cells(rng, g, cls, "buildSolverMatrixRadialSection", j, cells, [&] { d.buildSolverMatrixRadialSection(j, A); });
}

template <class S> static void probe_smoother(Rng& rng, const PolarGrid& g, S& sm, const char* cls, bool give)
{
    const int nc = g.numberSmootherCircles(), nt = g.ntheta();
    const std::vector<int> tr = {1, 2};
    auto colname = [](SmootherColor c) { return c == SmootherColor::Black ? "black" : "white"; };
    for (SmootherColor col : {SmootherColor::Black, SmootherColor::White}) {
        for (int i = 0; i <= nc; i++) {
            bool own = ((nc - 1 - i) % 2 == 0) == (col == SmootherColor::Black);
            if (i == nc && !(give && col == SmootherColor::Black)) continue; // row nc is passed only by the give black sweep
            if (!give && !own) continue;                                      // the take kernels get the line's own colour
            probe(rng, g, cls, "applyAscOrthoCircleSection", i, colname(col), tr, [&](Arrays& A) { sm.applyAscOrthoCircleSection(i, col, A.x, A.rhs, A.temp); });
        }
        for (int j = 0; j < nt; j++) {
            bool own = (j % 2 == 0) == (col == SmootherColor::Black);
            if (!give && !own) continue;
            probe(rng, g, cls, "applyAscOrthoRadialSection", j, colname(col), tr, [&](Arrays& A) { sm.applyAscOrthoRadialSection(j, col, A.x, A.rhs, A.temp); });
        }
    }
    for (int i = 0; i < nc; i++)
        probe(rng, g, cls, "solveCircleSection", i, "none", tr, [&](Arrays& A) {
            Vector<double> s1(nt), s2(nt);
            sm.solveCircleSection(i, A.x, A.temp, s1, s2);
        });
    for (int j = 0; j < nt; j++)
        probe(rng, g, cls, "solveRadialSection", j, "none", tr, [&](Arrays& A) {
            Vector<double> s(g.lengthSmootherRadial());
            sm.solveRadialSection(j, A.x, A.temp, s);
        });
}

int main(int argc, char** argv)
{
    int shapes = argc > 1 ? atoi(argv[1]) : 4;
    Rng rng(seed_from_env() * 7919 + 5);
    omp_set_num_threads(1);
    for (int c = 0; c < shapes; c++) {
        // small grids; every residue of nc mod 2 and nt mod 4 ∈ {0} (smoothers) — the residual kernels also see nt % 4 = 2
        int nr = rng.range(7, 11), nt = rng.pick(std::vector<int>{8, 8, 12, 16});
        Problem p;
        p.R0 = rng.pick(std::vector<double>{1e-5, 0.1});
        p.Rmax = 1.3;
        // geometries with a non-vanishing mixed coefficient art, so that no stencil entry is zero by accident
        if (rng.coin()) { p.geo_name = "czarny"; p.geo = std::make_unique<CzarnyGeometry>(p.Rmax, 0.3, 1.4); }
        else { p.geo_name = "shafranov"; p.geo = std::make_unique<ShafranovGeometry>(p.Rmax, 0.3, 0.2); }
        p.coef_name = "zoniShiftedGyro";
        p.coef = std::make_unique<ZoniShiftedGyroCoefficients>(p.Rmax, 0.7);
        make_grid_arrays(rng, nr, nt, p.R0, p.Rmax, p.radii, p.angles, false);
        p.dirbc = rng.coin();
        int ncw = rng.range(3, nr - 4);
        std::optional<double> split = 0.5 * (p.radii[ncw - 1] + p.radii[ncw]);
        Chain ch = make_chain(p, 1, true, true, split);
        Level& L = *ch.levels[0];
        const PolarGrid& g = L.grid();
        const int nc = g.numberSmootherCircles();
        if (nc < 3 || g.lengthSmootherRadial() < 3) continue;
        printf("SHAPE nr=%d nt=%d nc=%d bc=%d geo=%s\n", g.nr(), g.ntheta(), nc, (int)p.dirbc, p.geo_name.c_str());
        {
            ResidualGive R(g, L.levelCache(), *p.geo, *p.coef, p.dirbc, 1);
            for (int i = 0; i < nc; i++) probe(rng, g, "ResidualGive", "applyCircleSection", i, "none", {0}, [&](Arrays& A) { R.applyCircleSection(i, A.out, A.x); });
            for (int j = 0; j < g.ntheta(); j++) probe(rng, g, "ResidualGive", "applyRadialSection", j, "none", {0}, [&](Arrays& A) { R.applyRadialSection(j, A.out, A.x); });
        }
        {
            ResidualTake R(g, L.levelCache(), *p.geo, *p.coef, p.dirbc, 1);
            for (int i = 0; i < nc; i++) probe(rng, g, "ResidualTake", "applyCircleSection", i, "none", {0}, [&](Arrays& A) { R.applyCircleSection(i, A.out, A.rhs, A.x); });
            for (int j = 0; j < g.ntheta(); j++) probe(rng, g, "ResidualTake", "applyRadialSection", j, "none", {0}, [&](Arrays& A) { R.applyRadialSection(j, A.out, A.rhs, A.x); });
        }
        { SmootherGive S(g, L.levelCache(), *p.geo, *p.coef, p.dirbc, 1); probe_smoother(rng, g, S, "SmootherGive", true); probe_asc(rng, g, S, "SmootherGiveAsc"); }
        { SmootherTake S(g, L.levelCache(), *p.geo, *p.coef, p.dirbc, 1); probe_smoother(rng, g, S, "SmootherTake", false); probe_asc(rng, g, S, "SmootherTakeAsc"); }
        { ExtrapolatedSmootherGive S(g, L.levelCache(), *p.geo, *p.coef, p.dirbc, 1); probe_smoother(rng, g, S, "ExSmootherGive", true); probe_asc(rng, g, S, "ExSmootherGiveAsc"); }
        { ExtrapolatedSmootherTake S(g, L.levelCache(), *p.geo, *p.coef, p.dirbc, 1); probe_smoother(rng, g, S, "ExSmootherTake", false); probe_asc(rng, g, S, "ExSmootherTakeAsc"); }
        { DirectSolverGiveCustomLU D(g, L.levelCache(), *p.geo, *p.coef, p.dirbc, 1); probe_direct(rng, g, D, "DirectGive"); }
        { DirectSolverTakeCustomLU D(g, L.levelCache(), *p.geo, *p.coef, p.dirbc, 1); probe_direct(rng, g, D, "DirectTake"); }
    }
    printf("end\n");
    return 0;
}
