// C18 harness: the parametric PolarGrid constructor, file round trip and level count, with the PolarGrid sources compiled
// into this translation unit (so that sanitizers / _GLIBCXX_DEBUG / assert settings apply to them).
//   h_gridgen gen            cross product of (nr_exp, ntheta_exp, aniso, divideBy2, refinement radius class, R0)
//   h_gridgen one <R0> <Rmax> <nr_exp> <ntheta_exp> <refr> <aniso> <div>     a single construction (child process use)
//   h_gridgen files <cases>  write / load round trip and malformed files
#include "common.hpp"
#include "PolarGrid/polargrid.cpp"
#include "PolarGrid/anisotropic_division.cpp"
#include "PolarGrid/load_write_grid.cpp"
#include "PolarGrid/multiindex.cpp"
#include "PolarGrid/point.cpp"
#include <fcntl.h>
#include <sys/wait.h>
#include <unistd.h>
#include <fstream>

static int one(double R0, double Rmax, int nr_exp, int nt_exp, double refr, int aniso, int div)
{
    try {
        PolarGrid g(R0, Rmax, nr_exp, nt_exp, refr, aniso, div);
        // implementation oracle (no model involved): one more halving contains the grid of one halving less as its every-second-node
        // subgrid, in r AND in theta, and the new nodes are the midpoints — "nested", as the property states it
        std::string nested = "-";
        if (div >= 1) {
            try {
                PolarGrid c(R0, Rmax, nr_exp, nt_exp, refr, aniso, div - 1);
                bool ok = g.nr() == 2 * c.nr() - 1 && g.ntheta() == 2 * c.ntheta();
                if (ok) {
                    for (int i = 0; i < c.nr(); i++) if (g.radius(2 * i) != c.radius(i)) ok = false;
                    for (int j = 0; j <= c.ntheta(); j++) if (g.angles()[2 * j] != c.angles()[j]) ok = false;
                    for (int i = 1; i < g.nr(); i += 2) if (std::abs(g.radius(i) - 0.5 * (g.radius(i - 1) + g.radius(i + 1))) > 1e-14 * g.radius(i + 1)) ok = false;
                    for (int j = 1; j < g.ntheta(); j += 2) if (std::abs(g.angles()[j] - 0.5 * (g.angles()[j - 1] + g.angles()[j + 1])) > 1e-14 * 7.0) ok = false;
                }
                nested = ok ? "1" : "0";
            }
            catch (const std::exception&) { nested = "-"; }
        }
        printf("OK nr=%d nt=%d nc=%d nested_in_one_halving_less=%s radii=%s angles=%s\n", g.nr(), g.ntheta(), g.numberSmootherCircles(), nested.c_str(), hexvec(g.radii()).c_str(), hexvec(g.angles()).c_str());
    }
    catch (const std::exception& e) {
        printf("THROW %s\n", e.what());
    }
    fflush(stdout);
    return 0;
}

// run one construction in a child so that a sanitizer abort / assertion / crash is an observable outcome
static void run_child(const char* self, double R0, double Rmax, int nr_exp, int nt_exp, double refr, int aniso, int div)
{
    printf("GEN R0=%s Rmax=%s nr_exp=%d nt_exp=%d refr=%s aniso=%d div=%d\n", hex(R0).c_str(), hex(Rmax).c_str(), nr_exp, nt_exp, hex(refr).c_str(), aniso, div);
    fflush(stdout);
    int fds[2];
    if (pipe(fds) != 0) return;
    pid_t pid = fork();
    if (pid == 0) {
        dup2(fds[1], 1);
        close(fds[0]);
        int devnull = open("/dev/null", O_WRONLY);
        dup2(devnull, 2);
        one(R0, Rmax, nr_exp, nt_exp, refr, aniso, div);
        _exit(0);
    }
    close(fds[1]);
    std::string out;
    char buf[65536];
    ssize_t n;
    while ((n = read(fds[0], buf, sizeof buf)) > 0) out.append(buf, n);
    close(fds[0]);
    int st = 0;
    waitpid(pid, &st, 0);
    bool clean = WIFEXITED(st) && WEXITSTATUS(st) == 0;
    if (clean && !out.empty()) fputs(out.c_str(), stdout);
    else printf("ABORT status=%d signal=%d\n", WIFEXITED(st) ? WEXITSTATUS(st) : -1, WIFSIGNALED(st) ? WTERMSIG(st) : 0);
    fflush(stdout);
}

#include <fcntl.h>

static int mode_gen(const char* self, int thin)
{
    Rng rng(seed_from_env());
    int count = 0;
    for (double R0 : {1e-5, 0.1})
        for (int nr_exp = 2; nr_exp <= 8; nr_exp++)
            for (int nt_exp : {-1, 2, 3, 5})
                for (int aniso = 0; aniso <= 5; aniso++)
                    for (int div = 0; div <= 2; div++)
                        for (int rc = 0; rc < 9; rc++) {
                            if (thin > 1 && (int)(rng.next() % thin) != 0) continue;
                            if (nr_exp + div > 8) continue;
                            // the outer radius varies too (the refinement positions below scale with it); 1.3 is the default of the options
                            const double Rmax = rng.pick(std::vector<double>{1.3, 1.3, 1.0, 2.5});
                            double refr;
                            switch (rc) {
                            case 0: refr = 0.0; break; // the command-line default (below R0)
                            case 1: refr = R0; break;
                            case 2: refr = R0 + 0.0412 * (Rmax - R0); break; // not 0.04: floor(125 * 0.04) sits on a discontinuity
                            case 3: refr = R0 + 0.1537 * (Rmax - R0); break;
                            case 4: refr = R0 + 0.5077 * (Rmax - R0); break; // not the exact midpoint: floor(nr * fraction) is discontinuous there and the model's exact fraction need not round like the double
                            case 5: refr = 0.7081 * Rmax; break;
                            case 6: refr = Rmax - 0.01; break;
                            case 7: refr = Rmax; break;
                            default: refr = Rmax + 0.7; break; // above Rmax
                            }
                            run_child(self, R0, Rmax, nr_exp, nt_exp, refr, aniso, div);
                            count++;
                        }
    printf("end %d\n", count);
    return 0;
}

static int mode_files(int cases)
{
    Rng rng(seed_from_env());
    char dir[] = "/tmp/gmgverif_gridXXXXXX";
    if (!mkdtemp(dir)) return 1;
    std::string fr = std::string(dir) + "/r.txt", ft = std::string(dir) + "/t.txt";
    for (int c = 0; c < cases; c++) {
        int nr_exp = rng.range(2, 6), aniso = rng.range(0, 2), div = rng.range(0, 1);
        int precision = rng.pick(std::vector<int>{16, 17, 18}); // full double precision; fewer digits fail the loader's own 1e3*eps validity checks (clean exception)
        printf("FILECASE nr_exp=%d aniso=%d div=%d precision=%d\n", nr_exp, aniso, div, precision);
        try {
            PolarGrid g(1e-5, 1.3, nr_exp, -1, 0.66, aniso < nr_exp ? aniso : 0, div);
            g.writeToFile(fr, ft, precision);
            PolarGrid l(fr, ft);
            double dr = 0, dt = 0;
            bool same_shape = l.nr() == g.nr() && l.ntheta() == g.ntheta();
            if (same_shape) {
                for (int i = 0; i < g.nr(); i++) dr = std::max(dr, std::abs(g.radius(i) - l.radius(i)));
                for (int j = 0; j <= g.ntheta(); j++) dt = std::max(dt, std::abs(g.angles()[j] - l.angles()[j]));
            }
            printf("FILE precision=%d nr=%d nt=%d same_shape=%d dr=%s dt=%s\n", precision, g.nr(), g.ntheta(), (int)same_shape, hex(dr).c_str(), hex(dt).c_str());
        }
        catch (const std::exception& e) {
            printf("FILE-THROW precision=%d %s\n", precision, e.what());
        }
    }
    // malformed inputs: missing, empty, short, non-numeric, non-monotone
    auto attempt = [&](const char* what, const std::string& rtxt, const std::string& ttxt, bool write_r, bool write_t) {
        unlink(fr.c_str()); unlink(ft.c_str());
        if (write_r) { std::ofstream f(fr); f << rtxt; }
        if (write_t) { std::ofstream f(ft); f << ttxt; }
        try {
            PolarGrid g(fr, ft);
            printf("BADFILE %s accepted nr=%d nt=%d\n", what, g.nr(), g.ntheta());
        }
        catch (const std::exception& e) {
            printf("BADFILE %s throw\n", what);
        }
    };
    std::string good_t = "0\n1.5707963267948966\n3.1415926535897931\n4.7123889803846897\n6.2831853071795862\n";
    attempt("missing-both", "", "", false, false);
    attempt("missing-angles", "0.1\n0.5\n1.3\n", "", true, false);
    attempt("empty-radii", "", good_t, true, true);
    attempt("one-radius", "0.5\n", good_t, true, true);
    attempt("non-numeric", "abc\n", good_t, true, true);
    attempt("non-monotone", "0.1\n0.5\n0.4\n1.3\n", good_t, true, true);
    attempt("no-antipode", "0.1\n0.5\n1.3\n", "0\n1.0\n3.1415926535897931\n6.2831853071795862\n", true, true);
    // equal neighbours are not "strictly increasing" either: a zero spacing divides by zero in every stencil
    attempt("duplicate-radius", "0.1\n0.5\n0.5\n1.3\n", good_t, true, true);
    attempt("duplicate-first-radius", "0.1\n0.1\n0.5\n1.3\n", good_t, true, true);
    attempt("duplicate-last-radius", "0.1\n0.5\n1.3\n1.3\n", good_t, true, true);
    attempt("duplicate-angle", "0.1\n0.5\n1.3\n", "0\n1.5707963267948966\n1.5707963267948966\n3.1415926535897931\n4.7123889803846897\n4.7123889803846897\n6.2831853071795862\n", true, true);
    attempt("good", "0.1\n0.5\n1.3\n", good_t, true, true);
    attempt("good-two-radii", "0.1\n1.3\n", good_t, true, true); // the smallest grid the constructor accepts (finding F13)
    unlink(fr.c_str()); unlink(ft.c_str()); rmdir(dir);
    // the same through the coordinate-vector constructor, and through the parametric one on an annulus so thin that neighbouring
    // nodes coincide in double (Rmax - R0 = 1e-12 at R0 = 1 leaves about 4500 distinct doubles for 8193 nodes)
    auto attempt_vec = [&](const char* what, std::vector<double> r, std::vector<double> t) {
        try { PolarGrid g(r, t); printf("BADFILE %s accepted nr=%d nt=%d\n", what, g.nr(), g.ntheta()); }
        catch (const std::exception& e) { printf("BADFILE %s throw\n", what); }
    };
    const double pi = 3.14159265358979323846;
    attempt_vec("vector-duplicate-radius", {0.1, 0.5, 0.5, 1.3}, {0, pi / 2, pi, 3 * pi / 2, 2 * pi});
    attempt_vec("vector-duplicate-angle", {0.1, 0.5, 1.3}, {0, pi / 2, pi / 2, pi, 3 * pi / 2, 3 * pi / 2, 2 * pi});
    attempt_vec("vector-good", {0.1, 0.5, 1.3}, {0, pi / 2, pi, 3 * pi / 2, 2 * pi});
    try {
        PolarGrid g(1.0, 1.0 + 1e-12, 13, -1, 0.66, 0, 0);
        bool strict = true;
        for (int i = 0; i + 1 < g.nr(); i++) if (!(g.radius(i) < g.radius(i + 1))) strict = false;
        printf("BADFILE thin-annulus-8193-radii %s nr=%d\n", strict ? "throw-not-needed" : "accepted", g.nr());
    }
    catch (const std::exception& e) { printf("BADFILE thin-annulus-8193-radii throw\n"); }
    printf("end\n");
    return 0;
}

int main(int argc, char** argv)
{
    std::string mode = argc > 1 ? argv[1] : "";
    if (mode == "gen") { printf("seed %llu\n", (unsigned long long)seed_from_env()); return mode_gen(argv[0], argc > 2 ? atoi(argv[2]) : 1); }
    if (mode == "files") { printf("seed %llu\n", (unsigned long long)seed_from_env()); return mode_files(argc > 2 ? atoi(argv[2]) : 10); }
    if (mode == "one" && argc >= 9) return one(atof(argv[2]), atof(argv[3]), atoi(argv[4]), atoi(argv[5]), atof(argv[6]), atoi(argv[7]), atoi(argv[8]));
    fprintf(stderr, "usage: h_gridgen gen|files|one ...\n");
    return 2;
}
